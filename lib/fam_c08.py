"""C08 family: capture sets x nesting x flows of function values x Ref mutation / shadowing after creation;
c08-stored: closures at every field position of a struct (layout words over closure / plain field) x source of the closure
x where the struct is built x how the field is read back; c08-maker: top-level functions returning closures (alone, with
state, in tuples, in structs) reaching their call as first-class values (let, alias, tuple, field, array, Vec, Ref, branch,
argument, result, capture), the returned closures then called."""
import itertools
from gast import *

FN1 = TFn([INT32], INT32)
F = TAdt("F")
K = TAdt("K")


def prelude(p):
    p.struct("F", [("f", FN1)])
    p.enum("K", [("K1", [INT32]), ("K0", [])])
    p.fn("apply", [("f", FN1), ("x", INT32)], INT32, CallV(Var("f"), Var("x")))
    p.fn("top", [("x", INT32)], INT32, Bin("+", Var("x"), Int(500)))
    p.fn("top0", [], INT32, Int(77))
    p.enum("H", [("Hold", [FN1]), ("Empty", [])])
    p.fn("wrap_pair", [("q", TTuple(FN1, INT32))], TTuple(TTuple(FN1, INT32), INT32), Tuple(Var("q"), Int(2)))


def body_expr(caps):
    """a + weighted sum of the captured variables (distinct weights reveal which binder was captured)"""
    e = Var("a")
    w = {"p": 10, "l": 100, "m": 1000, "o": 10000}
    for c in caps:
        if c == "r":
            e = Bin("+", e, Bin("*", Call("ref_get", Var("r")), Int(100000)))
        else:
            e = Bin("+", e, Bin("*", Var(c), Int(w[c])))
    return e


def creation(caps, depth):
    """statements creating closure `c` (captures `caps`), nested `depth` closures deep; returns (stmts, closure var)"""
    inner = Lam([("a", INT32)], body_expr(caps))
    if "o" in caps or depth >= 2:
        # created inside an outer closure with parameter o, returned from it
        mk = Lam([("o", INT32)], Block([Let("c0", inner)], Var("c0")))
        if depth >= 3:
            mk2 = Lam([("z", INT32)], Block([Let("mk1", mk), Let("c1", CallV(Var("mk1"), Bin("+", Var("z"), Int(4))))], Var("c1")))
            stmts = [Let("mk2", mk2), Let("c", CallV(Var("mk2"), Int(1)))]
        else:
            stmts = [Let("mk", mk), Let("c", CallV(Var("mk"), Int(5)))]
    else:
        stmts = [Let("c", inner)]
    return stmts


def flow_stmts(flow):
    """use closure variable c; define int `res`"""
    if flow == "let":
        return [Let("res", CallV(Var("c"), Int(1)))]
    if flow == "tuple":
        return [Let("t", Tuple(Var("c"), Int(0))), Let(PTuple(PVar("g"), PWild), Var("t")), Let("res", CallV(Var("g"), Int(1)))]
    if flow == "struct":
        return [Let("s", Struct(F, [("f", Var("c"))])), Let("g", Field(Var("s"), "f")), Let("res", CallV(Var("g"), Int(1)))]
    if flow == "array":
        return [Let("arr", Array(Var("c"), FnRef("top"))), Let("g", Call("array_get", Var("arr"), Int(0)), ty=FN1), Let("h", Call("array_get", Var("arr"), Int(1)), ty=FN1),
                Let("res", Bin("+", CallV(Var("g"), Int(1)), CallV(Var("h"), Int(0))))]
    if flow == "arg":
        return [Let("res", Call("apply", Var("c"), Int(1)))]
    if flow == "branch":
        return [Let("g", If(Bin("<", Var("p"), Int(100)), Var("c"), FnRef("top")), ty=FN1), Let("res", CallV(Var("g"), Int(1)))]
    if flow == "match-result":
        return [Let("g", Match(Ctor(K, "K1", Int(0)), [(PCtor("K1", PWild), Var("c")), (PCtor("K0"), FnRef("top"))]), ty=FN1), Let("res", CallV(Var("g"), Int(1)))]
    if flow == "closure-in-closure":
        return [Let("d", Lam([("b", INT32)], Bin("+", CallV(Var("c"), Var("b")), Int(1)))), Let("res", CallV(Var("d"), Int(1)))]
    if flow == "nested-tuple":
        return [Let("t", Tuple(Tuple(Var("c"), Int(1)), Int(2))), Let(PTuple(PVar("inner"), PWild), Var("t")), Let(PTuple(PVar("g"), PVar("one")), Var("inner")),
                Let("res", CallV(Var("g"), Var("one")))]
    if flow == "nested-tuple-3":
        return [Let("t", Tuple(Int(0), Tuple(Int(1), Tuple(Var("c"), Int(2))))), Let(PTuple(PWild, PTuple(PWild, PTuple(PVar("g"), PVar("two")))), Var("t")),
                Let("res", CallV(Var("g"), Bin("-", Var("two"), Int(1))))]
    if flow == "tuple-from-function":
        return [Let("t", Call("wrap_pair", Tuple(Var("c"), Int(1)))), Let(PTuple(PVar("inner"), PWild), Var("t")), Let(PTuple(PVar("g"), PVar("one")), Var("inner")),
                Let("res", CallV(Var("g"), Var("one")))]
    if flow == "vec":
        return [Let("vs", Call("vec_push", Call("vec_new"), Var("c")), ty=TVec(FN1)), Let("g", Call("vec_get", Var("vs"), Int(0)), ty=FN1), Let("res", CallV(Var("g"), Int(1)))]
    if flow == "ref-cell":
        return [Let("cell", Call("ref", Var("c"))), Let("g", Call("ref_get", Var("cell"))), Let("res", CallV(Var("g"), Int(1)))]
    if flow == "enum-payload":
        return [Let("h", Ctor(TAdt("H"), "Hold", Var("c"))), Let("res", Match(Var("h"), [(PCtor("Hold", PVar("g")), CallV(Var("g"), Int(1))), (PCtor("Empty"), Int(0))]))]
    if flow == "mutate-then-call":
        return [Do(Call("ref_set", Var("r"), Int(7))), Let("res", CallV(Var("c"), Int(1)))]
    if flow == "shadow-then-call":
        return [Let("l", Int(9)), Let("p", Int(8)), Let("res", CallV(Var("c"), Int(1)))]
    if flow == "called-twice":
        return [Let("x1", CallV(Var("c"), Int(1))), Do(Call("ref_set", Var("r"), Int(4))), Let("res", Bin("+", Var("x1"), CallV(Var("c"), Int(2))))]
    raise ValueError(flow)


FLOWS = ["nested-tuple", "nested-tuple-3", "tuple-from-function", "vec", "ref-cell", "enum-payload", "let", "tuple", "struct", "array", "arg", "branch", "match-result", "closure-in-closure", "mutate-then-call", "shadow-then-call", "called-twice"]


def program(caps, depth, flow, idx):
    p = Program(f"c08_{idx}")
    prelude(p)
    stmts = [Let("l", Int(2)), Let("r", Call("ref", Int(3)))]
    cre = creation(caps, depth)
    use = flow_stmts(flow)
    if "m" in caps:
        # the closure is created inside a match arm and captures the pattern variable m
        inner = Block(cre + use, Var("res"))
        stmts.append(Let("out", Match(Ctor(K, "K1", Int(6)), [(PCtor("K1", PVar("m")), inner), (PCtor("K0"), Int(-1))]), ty=INT32))
        stmts.append(Var("out"))
        body = Block(stmts[:-1], Var("out"))
    else:
        body = Block(stmts + cre + use, Var("res"))
    p.fn("run", [("p", INT32)], INT32, body)
    p.fn("main", [], UNIT, Block([println(show_int(Call("run", Int(1)))), println(show_int(Call("run", Int(2))))], Unit))
    return p


def programs(tier):
    out = []
    kinds = ["p", "l", "m", "o", "r"]
    subsets = [c for n in (1, 2, 3, 5) for c in itertools.combinations(kinds, n)]
    idx = 0
    for caps in subsets:
        for flow in FLOWS:
            if flow in ("mutate-then-call", "called-twice") and "r" not in caps:
                continue
            if flow == "shadow-then-call" and not ({"l", "p"} & set(caps)):
                continue
            depths = [1] if "o" not in caps else [2]
            if len(caps) <= 2:
                depths = depths + [3]
            for depth in depths:
                if tier == "quick" and (idx % 3) and flow not in ("arg",):
                    idx += 1
                    continue
                idx += 1
                ident = f"c08:flow={flow}:caps={''.join(caps)}:depth={depth}"
                out.append({"prog": program(list(caps), depth, flow, idx), "family": "c08", "ident": ident})
    # ---- where inside the closure body the captured variable is used (capture analysis must visit every construct)
    def site_body(site, v):
        """expression of type int32 using captured variable v (int32) only at `site`"""
        if site == "match-default-arm":
            return Match(Var("a"), [(PInt(0), Int(1)), (PInt(1), Int(2)), (PWild, Bin("+", Var(v), Int(1000)))])
        if site == "match-literal-arm":
            return Match(Var("a"), [(PInt(5), Bin("+", Var(v), Int(2000))), (PWild, Int(3))])
        if site == "match-scrutinee":
            return Match(Bin("+", Var(v), Var("a")), [(PInt(0), Int(1)), (PWild, Int(4))])
        if site == "string-match-default":
            return Match(Call("int32_to_string", Var("a")), [(PStr("0"), Int(1)), (PWild, Bin("+", Var(v), Int(3000)))])
        if site == "enum-match-arm":
            return Match(Ctor(K, "K1", Var("a")), [(PCtor("K1", PVar("q")), Bin("+", Var(v), Var("q"))), (PCtor("K0"), Int(0))])
        if site == "if-else-branch":
            return If(Bin("<", Var("a"), Int(0)), Int(1), Bin("+", Var(v), Int(4000)))
        if site == "if-condition":
            return If(Bin("<", Var(v), Int(100)), Int(7), Int(8))
        if site == "while-condition":
            return Block([Let("i", Call("ref", Int(0))), Do(While(Bin("<", Call("ref_get", Var("i")), Var(v)), Block([Do(Call("ref_set", Var("i"), Bin("+", Call("ref_get", Var("i")), Int(1))))], Unit)))], Call("ref_get", Var("i")))
        if site == "nested-let":
            return Block([Let("u", Block([Let("w", Bin("*", Var(v), Int(2)))], Var("w")))], Bin("+", Var("u"), Var("a")))
        if site == "call-argument":
            return Call("top", Var(v))
        if site == "tuple-element":
            return Block([Let(PTuple(PVar("t0"), PWild), Tuple(Var(v), Var("a")))], Var("t0"))
        if site == "struct-field":
            return Field(Struct(TAdt("P2"), [("m", Var("a")), ("n", Var(v))]), "n")
        if site == "array-element":
            return Call("array_get", Array(Var("a"), Var(v)), Int(1))
        if site == "unary":
            return Un("-", Var(v))
        if site == "inner-closure":
            return Block([Let("inner", Lam([("z", INT32)], Bin("+", Var("z"), Var(v))))], CallV(Var("inner"), Var("a")))
        if site == "inner-closure-default-arm":
            return Block([Let("inner", Lam([("z", INT32)], Match(Var("z"), [(PInt(0), Int(1)), (PWild, Bin("+", Var(v), Int(5000)))])))], CallV(Var("inner"), Var("a")))
        raise ValueError(site)
    SITES = ["match-default-arm", "match-literal-arm", "match-scrutinee", "string-match-default", "enum-match-arm", "if-else-branch", "if-condition",
             "while-condition", "nested-let", "call-argument", "tuple-element", "struct-field", "array-element", "unary", "inner-closure",
             "inner-closure-default-arm"]
    for site in SITES:
        for capkind in ("let", "param"):
            p = Program(f"c08_site_{site.replace('-', '_')}_{capkind}")
            prelude(p)
            p.struct("P2", [("m", INT32), ("n", INT32)])
            v = "l" if capkind == "let" else "p"
            p.fn("run", [("p", INT32)], INT32, Block([Let("l", Int(2)), Let("c", Lam([("a", INT32)], site_body(site, v))), Let("r1", CallV(Var("c"), Int(1))), Let("r2", CallV(Var("c"), Int(5)))],
                                                   Bin("+", Bin("*", Var("r1"), Int(3)), Var("r2"))))
            p.fn("main", [], UNIT, Block([println(show_int(Call("run", Int(3))))], Unit))
            out.append({"prog": p, "family": "c08", "ident": f"c08:use-site={site}:captured={capkind}"})
    # ---- captured variables of other types, each used ONLY through the operation that consumes a value of that type (the capture
    # analysis has one arm per construct; the operand positions of those arms are what this family walks): receiver of a dyn call,
    # of a trait call, of an inherent method; base of a field read / projection; cell of ref_get / ref_set; vector / array operand;
    # scrutinee; operand of a dyn coercion; a string operand
    typed_sites = {
        "dyn-call-receiver": (TDyn("Tr"), ToDyn("Tr", Struct(TAdt("P2"), [("m", Int(7)), ("n", Int(9))])), lambda v: TCall("Tr", "tm", Var(v), Var("a"))),
        "dyn-call-receiver-in-default-arm": (TDyn("Tr"), ToDyn("Tr", Struct(TAdt("P2"), [("m", Int(7)), ("n", Int(9))])),
                                             lambda v: Match(Var("a"), [(PInt(0), Int(1)), (PWild, TCall("Tr", "tm", Var(v), Var("a")))])),
        "trait-call-receiver": (TAdt("P2"), Struct(TAdt("P2"), [("m", Int(7)), ("n", Int(9))]), lambda v: TCall("Tr", "tm", Var(v), Var("a"))),
        "trait-method-receiver": (TAdt("P2"), Struct(TAdt("P2"), [("m", Int(7)), ("n", Int(9))]), lambda v: TCall("Tr", "tm", Var(v), Var("a"), form="method")),
        "to-dyn-operand": (TAdt("P2"), Struct(TAdt("P2"), [("m", Int(7)), ("n", Int(9))]), lambda v: Block([Let("dd", ToDyn("Tr", Var(v)), ty=TDyn("Tr"))], TCall("Tr", "tm", Var("dd"), Var("a")))),
        "field-base": (TAdt("P2"), Struct(TAdt("P2"), [("m", Int(7)), ("n", Int(9))]), lambda v: Bin("+", Field(Var(v), "n"), Var("a"))),
        "projection-base": (TTuple(INT32, INT32), Tuple(Int(11), Int(13)), lambda v: Bin("+", Proj(Var(v), 1), Var("a"))),
        "ref-get-cell": (TRef(INT32), Call("ref", Int(21)), lambda v: Bin("+", Call("ref_get", Var(v)), Var("a"))),
        "ref-set-cell": (TRef(INT32), Call("ref", Int(21)), lambda v: Block([Do(Call("ref_set", Var(v), Bin("+", Var("a"), Int(1))))], Var("a"))),
        "vec-get-vector": (TVec(INT32), Call("vec_push", Call("vec_new", targs=(INT32,)), Int(31)), lambda v: Bin("+", Call("vec_get", Var(v), Int(0)), Var("a"))),
        "array-get-array": (TArray(2, INT32), Array(Int(41), Int(43)), lambda v: Bin("+", Call("array_get", Var(v), Int(1)), Var("a"))),
        "enum-scrutinee": (K, Ctor(K, "K1", Int(51)), lambda v: Match(Var(v), [(PCtor("K1", PVar("q")), Bin("+", Var("q"), Var("a"))), (PCtor("K0"), Int(0))])),
        "string-operand": (STRING, Str("s"), lambda v: If(Bin("==", Bin("+", Var(v), Str("t")), Str("st")), Bin("+", Var("a"), Int(60)), Int(0))),
        "bool-condition": (BOOL, Bool(True), lambda v: If(Var(v), Bin("+", Var("a"), Int(70)), Int(0))),
    }
    for site, (ty, init, use) in typed_sites.items():
        for capkind in ("let", "param"):
            p = Program(f"c08_tsite_{site.replace('-', '_')}_{capkind}")
            prelude(p)
            p.struct("P2", [("m", INT32), ("n", INT32)])
            p.trait("Tr", [("tm", [INT32], INT32)])
            p.impl("Tr", TAdt("P2"), [("tm", [("self", TAdt("P2")), ("a", INT32)], INT32, Bin("+", Bin("*", Field(Var("self"), "n"), Int(100)), Var("a")))])
            p.impl("Tr", INT32, [("tm", [("self", INT32), ("a", INT32)], INT32, Bin("-", Int(-1), Var("a")))])
            tail = Bin("+", Bin("*", Var("r1"), Int(3)), Var("r2"))
            if site == "ref-set-cell":
                tail = Bin("+", tail, Bin("*", Call("ref_get", Var("cv")), Int(1000)))
            body = [Let("c", Lam([("a", INT32)], use("cv"))), Let("r1", CallV(Var("c"), Int(1))), Let("r2", CallV(Var("c"), Int(5)))]
            if capkind == "let":
                p.fn("run", [], INT32, Block([Let("cv", init, ty=ty)] + body, tail))
                p.fn("main", [], UNIT, Block([println(show_int(Call("run")))], Unit))
            else:
                p.fn("run", [("cv", ty)], INT32, Block(body, tail))
                p.fn("main", [], UNIT, Block([Let("arg", init, ty=ty), println(show_int(Call("run", Var("arg"))))], Unit))
            out.append({"prog": p, "family": "c08", "ident": f"c08:typed-use-site={site}:captured={capkind}"})
    # captured *function-typed* variables used only as callee / only as argument / both, also inside nested closures
    for fkind in ("let-fnref", "param-fn"):
        for use in ("callee", "callee-twice", "argument", "callee-in-inner-closure", "callee-in-default-arm"):
            p = Program(f"c08_fncap_{fkind.replace('-', '_')}_{use.replace('-', '_')}")
            prelude(p)
            g = "op" if fkind == "let-fnref" else "f"
            if use == "callee":
                body = CallV(Var(g), Var("a"))
            elif use == "callee-twice":
                body = CallV(Var(g), CallV(Var(g), Var("a")))
            elif use == "argument":
                body = Call("apply", Var(g), Var("a"))
            elif use == "callee-in-inner-closure":
                body = Block([Let("inner", Lam([("z", INT32)], CallV(Var(g), Var("z"))))], CallV(Var("inner"), Var("a")))
            else:
                body = Match(Var("a"), [(PInt(0), Int(1)), (PWild, CallV(Var(g), Var("a")))])
            stmts = ([Let("op", FnRef("top"))] if fkind == "let-fnref" else []) + [Let("c", Lam([("a", INT32)], body)), Let("r", CallV(Var("c"), Int(4)))]
            p.fn("run", [("f", FN1)], INT32, Block(stmts, Var("r")))
            p.fn("main", [], UNIT, Block([println(show_int(Call("run", FnRef("top"))))], Unit))
            out.append({"prog": p, "family": "c08", "ident": f"c08:fn-typed-capture={fkind}:use={use}"})
    # top-level functions as values in every flow; zero-argument function value; returned closure
    for flow in ["let", "tuple", "struct", "array", "arg", "branch", "closure-in-closure"]:
        p = Program(f"c08_top_{flow.replace('-', '_')}")
        prelude(p)
        p.fn("run", [("p", INT32)], INT32, Block([Let("c", FnRef("top"), ty=FN1)] + flow_stmts(flow), Var("res")))
        p.fn("main", [], UNIT, Block([println(show_int(Call("run", Int(1))))], Unit))
        out.append({"prog": p, "family": "c08", "ident": f"c08:flow={flow}:toplevel-fn"})
    p = Program("c08_zero_arity")
    prelude(p)
    p.fn("main", [], UNIT, Block([Let("z", FnRef("top0"), ty=TFn([], INT32)), println(show_int(CallV(Var("z")))),
                                  Let("k", Int(3)), Let("y", Lam([], Bin("+", Var("k"), Int(1)))), println(show_int(CallV(Var("y"))))], Unit))
    out.append({"prog": p, "family": "c08", "ident": "c08:zero-arity"})
    p = Program("c08_returned")
    prelude(p)
    p.fn("make", [("p", INT32)], FN1, Block([Let("l", Int(2)), Let("r", Call("ref", Var("p")))],
                                             Lam([("a", INT32)], Block([Do(Call("ref_set", Var("r"), Bin("+", Call("ref_get", Var("r")), Int(1))))], Bin("+", Bin("+", Var("a"), Bin("*", Var("l"), Int(100))), Call("ref_get", Var("r")))))))
    p.fn("main", [], UNIT, Block([Let("c1", Call("make", Int(10))), Let("c2", Call("make", Int(20))),
                                  println(show_int(CallV(Var("c1"), Int(1)))), println(show_int(CallV(Var("c1"), Int(1)))), println(show_int(CallV(Var("c2"), Int(1)))), println(show_int(CallV(Var("c1"), Int(1))))], Unit))
    out.append({"prog": p, "family": "c08", "ident": "c08:returned-counter"})
    out += stored_programs(tier)
    out += maker_programs(tier)
    return out


# ---------------------------------------------------------------- closures stored at every position of a struct / variant
# A layout is a word over {c, n}: field i holds a closure (c) or a plain value (n: int32 and string alternately).  The
# closure of the k-th c-field has its own weight, so the printed sum tells which closure was read back from which field.
LAYOUTS = ["c", "cn", "nc", "ncn", "nnc", "cnc", "ncc", "cnn", "nncn", "cc"]
WEIGHTS = [10, 1000, 100000]


def layout_types(layout):
    ts, n = [], 0
    for ch in layout:
        if ch == "c":
            ts.append(FN1)
        else:
            ts.append(INT32 if n % 2 == 0 else STRING)
            n += 1
    return ts


def stored_program(container, layout, src, place, access, name):
    """container: struct | enum; src: where the stored closure comes from (var = a let-bound closure, literal = written in the
    field, made = result of a closure-returning function); place: the value is built in `run` (local) or by a function that
    returns it (returned); access: field (s.f then call) | pattern (destructuring let / match arm)"""
    p = Program(name)
    prelude(p)
    ts = layout_types(layout)
    L = TAdt("L" + layout)
    if container == "struct":
        p.struct("L" + layout, [(f"f{i}", t) for i, t in enumerate(ts)])
    else:
        p.enum("L" + layout, [("Keep", ts), ("Nothing", [])])
    pre, vals, k = [Let("l", Int(2))], [], 0
    for i, t in enumerate(ts):
        if t == FN1:
            w = WEIGHTS[k]
            lam = Lam([("a", INT32)], Bin("+", Bin("+", Var("a"), Bin("*", Var("p"), Int(w))), Bin("*", Var("l"), Int(w * 3))))
            if src == "var":
                pre.append(Let(f"c{k}", lam))
                vals.append(Var(f"c{k}"))
            elif src == "literal":
                vals.append(lam)
            else:
                p.fn(f"make{k}", [("p", INT32)], FN1, Block([Let("l", Int(2))], lam))
                vals.append(Call(f"make{k}", Var("p")))
            k += 1
        elif t == INT32:
            vals.append(Int(3 + i))
        else:
            vals.append(Str(f"s{i}"))
    if container == "struct":
        value = Struct(L, [(f"f{i}", v) for i, v in enumerate(vals)])
    else:
        value = Ctor(L, "Keep", *vals)
    if place == "returned":
        p.fn("build", [("p", INT32)], L, Block(pre, value))
        stmts = [Let("s", Call("build", Var("p")))]
    else:
        stmts = pre + [Let("s", value, ty=L)]
    # read every field back: call the closures (argument 1, 2, ..), add the ints, print the strings
    use, terms, k = [], [], 0
    for i, t in enumerate(ts):
        if container == "struct" and access == "field":
            use.append(Let(f"g{i}", Field(Var("s"), f"f{i}")))
        if t == FN1:
            k += 1
            terms.append(CallV(Var(f"g{i}"), Int(k)))
        elif t == INT32:
            terms.append(Var(f"g{i}"))
        else:
            use.append(println(Var(f"g{i}")))
    total = terms[0]
    for t in terms[1:]:
        total = Bin("+", total, t)
    if container == "struct":
        if access == "pattern":
            use = [Let(PStruct("L" + layout, [(f"f{i}", PVar(f"g{i}")) for i in range(len(ts))]), Var("s"))] + use
        body = Block(stmts + use, total)
    else:
        body = Block(stmts, Match(Var("s"), [(PCtor("Keep", *[PVar(f"g{i}") for i in range(len(ts))]), Block(use, total)), (PCtor("Nothing"), Int(-1))]))
    p.fn("run", [("p", INT32)], INT32, body)
    p.fn("main", [], UNIT, Block([println(show_int(Call("run", Int(1)))), println(show_int(Call("run", Int(2))))], Unit))
    return p


def stored_programs(tier):
    out, idx = [], 0
    SRCS = ("var", "literal", "made")
    COMBOS = [("local", "field"), ("returned", "field"), ("local", "pattern"), ("returned", "pattern")]
    # Only structs: a closure in an enum variant payload (at any position: layouts c, nc, ncn, .. all alike) is emitted as its
    # closure_env struct while the variant keeps the func type, which Go rejects ("bad field _i in literal of Keep") -- that is the
    # known finding C08-closure-value-where-func-type-expected (already witnessed by flow=enum-payload), so the enum container
    # cannot be compared and is left out of the generated set.
    for container in ("struct",):
        for layout in LAYOUTS:
            for src in SRCS:
                for place, access in COMBOS:
                    idx += 1
                    # quick: every layout with every source of the closure; where it is built / how it is read back rotate
                    if tier == "quick" and (place, access) != COMBOS[(LAYOUTS.index(layout) + SRCS.index(src)) % 4]:
                        continue
                    ident = f"c08:stored={container}:layout={layout}:src={src}:place={place}:access={access}"
                    out.append({"prog": stored_program(container, layout, src, place, access, f"c08_st_{idx}"), "family": "c08-stored", "ident": ident})
    return out


# ---------------------------------------------------------------- top-level functions that return closures, used as values
FN0 = TFn([], INT32)
MK1 = TFn([INT32], FN1)


def maker_defs(p, shape):
    """declare `make` (and `make_b`, a second maker of the same type) returning closure(s) in the given shape; returns
    (result type, use: expr of the result -> (stmts, int32 expr) calling every returned closure)"""
    def adder(w):
        return Lam([("a", INT32)], Bin("+", Var("a"), Bin("*", Var("n"), Int(w))))
    if shape == "closure":
        R = FN1
        p.fn("make", [("n", INT32)], R, adder(10))
        p.fn("make_b", [("n", INT32)], R, adder(1000))
        use = lambda r, u: ([Let(f"{u}g", r)], Bin("+", CallV(Var(f"{u}g"), Int(1)), Bin("*", CallV(Var(f"{u}g"), Int(2)), Int(3))))
    elif shape == "counter":
        # one closure with state: every call of the maker gives an independent cell
        R = FN1
        def counter(w):
            return Block([Let("cell", Call("ref", Var("n")))],
                         Lam([("a", INT32)], Block([Do(Call("ref_set", Var("cell"), Bin("+", Call("ref_get", Var("cell")), Var("a"))))], Bin("*", Call("ref_get", Var("cell")), Int(w)))))
        p.fn("make", [("n", INT32)], R, counter(1))
        p.fn("make_b", [("n", INT32)], R, counter(7))
        use = lambda r, u: ([Let(f"{u}g", r), Let(f"{u}x", CallV(Var(f"{u}g"), Int(1)))], Bin("+", Var(f"{u}x"), Bin("*", CallV(Var(f"{u}g"), Int(2)), Int(100))))
    elif shape == "tuple":
        # two closures sharing one Ref cell
        R = TTuple(FN1, FN0)
        def pair(w):
            return Block([Let("cell", Call("ref", Var("n"))),
                          Let("bump", Lam([("d", INT32)], Block([Do(Call("ref_set", Var("cell"), Bin("+", Call("ref_get", Var("cell")), Var("d"))))], Call("ref_get", Var("cell"))))),
                          Let("peek", Lam([], Bin("*", Call("ref_get", Var("cell")), Int(w))))], Tuple(Var("bump"), Var("peek")))
        p.fn("make", [("n", INT32)], R, pair(100))
        p.fn("make_b", [("n", INT32)], R, pair(7))
        use = lambda r, u: ([Let(PTuple(PVar(f"{u}bump"), PVar(f"{u}peek")), r), Let(f"{u}x", CallV(Var(f"{u}bump"), Int(5)))], Bin("+", Var(f"{u}x"), CallV(Var(f"{u}peek"))))
    elif shape == "tuple-mixed":
        # a closure after a plain value
        R = TTuple(INT32, FN1)
        p.fn("make", [("n", INT32)], R, Tuple(Bin("+", Var("n"), Int(1)), adder(10)))
        p.fn("make_b", [("n", INT32)], R, Tuple(Bin("+", Var("n"), Int(2)), adder(1000)))
        use = lambda r, u: ([Let(PTuple(PVar(f"{u}k"), PVar(f"{u}g")), r)], Bin("+", Var(f"{u}k"), CallV(Var(f"{u}g"), Int(1))))
    elif shape == "struct":
        R = TAdt("R2")
        p.struct("R2", [("tag", INT32), ("get", FN0), ("add", FN1)])
        def rec(w):
            return Block([Let("cell", Call("ref", Var("n")))],
                         Struct(R, [("tag", Int(w)), ("get", Lam([], Call("ref_get", Var("cell")))),
                                    ("add", Lam([("d", INT32)], Block([Do(Call("ref_set", Var("cell"), Bin("+", Call("ref_get", Var("cell")), Var("d"))))], Bin("*", Var("d"), Int(w)))))]))
        p.fn("make", [("n", INT32)], R, rec(10))
        # a struct type takes the closure environments of ONE construction site (known finding C02/C08-closure-value-where-func-type-
        # expected), so the second maker of this shape is the first under another name
        p.fn("make_b", [("n", INT32)], R, Call("make", Bin("+", Var("n"), Int(1))))
        use = lambda r, u: ([Let(f"{u}s", r), Let(f"{u}get", Field(Var(f"{u}s"), "get")), Let(f"{u}add", Field(Var(f"{u}s"), "add")), Let(f"{u}x", CallV(Var(f"{u}add"), Int(4)))],
                            Bin("+", Bin("+", Var(f"{u}x"), CallV(Var(f"{u}get"))), Field(Var(f"{u}s"), "tag")))
    else:
        raise ValueError(shape)
    return R, use


SHAPES = ["closure", "counter", "tuple", "tuple-mixed", "struct"]
MAKER_USES = ["direct", "let", "let-annotated", "alias-chain", "tuple", "struct-field", "array", "vec", "ref-cell", "branch", "match-result", "argument", "returned",
              "captured", "shadowing-param"]


def maker_program(shape, use_kind, name):
    """the maker `make` reaches its call as a first-class value through `use_kind`; the closures it returns are then called"""
    p = Program(name)
    prelude(p)
    R, use = maker_defs(p, shape)
    MK = TFn([INT32], R)
    call = lambda f, n: CallV(f, Int(n)) if f["k"] != "fnref" else Call(f["n"], Int(n))
    mk = FnRef("make")
    pre = []
    if use_kind == "direct":
        r1, r2 = Call("make", Var("p")), Call("make", Int(7))
    else:
        if use_kind == "let":
            pre = [Let("mk", mk)]
        elif use_kind == "let-annotated":
            pre = [Let("mk", mk, ty=MK)]
        elif use_kind == "alias-chain":
            pre = [Let("m0", mk), Let("m1", Var("m0")), Let("mk", Var("m1"))]
        elif use_kind == "tuple":
            pre = [Let("t", Tuple(Int(0), mk)), Let(PTuple(PWild, PVar("mk")), Var("t"))]
        elif use_kind == "struct-field":
            p.struct("M", [("k", INT32), ("mk", MK)])
            pre = [Let("m", Struct(TAdt("M"), [("k", Int(0)), ("mk", mk)])), Let("mk", Field(Var("m"), "mk"))]
        elif use_kind == "array":
            pre = [Let("arr", Array(mk, FnRef("make_b"))), Let("mk", Call("array_get", Var("arr"), Int(0)), ty=MK)]
        elif use_kind == "vec":
            pre = [Let("vs", Call("vec_push", Call("vec_new"), mk), ty=TVec(MK)), Let("mk", Call("vec_get", Var("vs"), Int(0)), ty=MK)]
        elif use_kind == "ref-cell":
            pre = [Let("cell", Call("ref", mk)), Let("mk", Call("ref_get", Var("cell")))]
        elif use_kind == "branch":
            pre = [Let("mk", If(Bin("<", Var("p"), Int(2)), mk, FnRef("make_b")), ty=MK)]
        elif use_kind == "match-result":
            pre = [Let("mk", Match(Var("p"), [(PInt(1), mk), (PWild, FnRef("make_b"))]), ty=MK)]
        elif use_kind == "captured":
            pre = [Let("mk", mk)]
        elif use_kind in ("argument", "returned", "shadowing-param"):
            pre = []
        else:
            raise ValueError(use_kind)
        r1, r2 = CallV(Var("mk"), Var("p")), CallV(Var("mk"), Int(7))
    if use_kind == "argument":
        # the maker is passed to a function that calls it and uses the closures
        s1, e1 = use(CallV(Var("mk"), Var("p")), "u")
        s2, e2 = use(CallV(Var("mk"), Int(7)), "v")
        p.fn("with_maker", [("mk", MK), ("p", INT32)], INT32, Block(s1 + s2, Bin("+", e1, Bin("*", e2, Int(2)))))
        p.fn("run", [("p", INT32)], INT32, Call("with_maker", mk, Var("p")))
    elif use_kind == "returned":
        # a function returns the maker
        s1, e1 = use(CallV(Var("mk"), Var("p")), "u")
        s2, e2 = use(CallV(Var("mk"), Int(7)), "v")
        p.fn("pick", [("p", INT32)], MK, If(Bin("<", Var("p"), Int(2)), mk, FnRef("make_b")))
        p.fn("run", [("p", INT32)], INT32, Block([Let("mk", Call("pick", Var("p")))] + s1 + s2, Bin("+", e1, Bin("*", e2, Int(2)))))
    elif use_kind == "captured":
        # a closure captures the maker value and calls it
        s1, e1 = use(CallV(Var("mk"), Var("q")), "u")
        s2, e2 = use(CallV(Var("h"), Var("p")), "v")
        p.fn("run", [("p", INT32)], INT32, Block(pre + [Let("h", Lam([("q", INT32)], Block(s1, e1))), Let("v", CallV(Var("h"), Var("p")))], Bin("+", Var("v"), CallV(Var("h"), Int(7)))))
    elif use_kind == "shadowing-param":
        # a local named like the maker holds it
        s1, e1 = use(CallV(Var("make"), Var("p")), "u")
        s2, e2 = use(CallV(Var("make"), Int(7)), "v")
        p.fn("run", [("p", INT32)], INT32, Block([Let("make", FnRef("make_b"))] + s1 + s2, Bin("+", e1, Bin("*", e2, Int(2)))))
    else:
        s1, e1 = use(r1, "u")
        s2, e2 = use(r2, "v")
        p.fn("run", [("p", INT32)], INT32, Block(pre + s1 + s2, Bin("+", e1, Bin("*", e2, Int(2)))))
    p.fn("main", [], UNIT, Block([println(show_int(Call("run", Int(1)))), println(show_int(Call("run", Int(2))))], Unit))
    return p


def maker_programs(tier):
    out, idx = [], 0
    for shape in SHAPES:
        for use_kind in MAKER_USES:
            idx += 1
            # A maker whose result holds closures outside a struct (closure, counter, tuple, tuple-mixed) is emitted with the
            # closure_env struct(s) in its Go result type, so the maker itself no longer has the Go type of its source function
            # type: storing it in a struct field / array / Vec / Ref, mixing it with another maker in a branch or match, passing
            # it as an argument or returning it is rejected by Go on the unchanged tree ("bad field mk", "bad element", "append
            # arguments", "argument not assignable", "cannot use value in assignment") -- the root cause of the known finding
            # C08-closure-value-where-func-type-expected one level up.  Those combinations cannot be compared and are left out;
            # a maker returning a struct of closures keeps its type and goes through every use.
            if shape != "struct" and use_kind in ("struct-field", "array", "vec", "ref-cell", "branch", "match-result", "argument", "returned"):
                continue
            out.append({"prog": maker_program(shape, use_kind, f"c08_mk_{idx}"), "family": "c08-maker", "ident": f"c08:maker-returns={shape}:maker-used-as={use_kind}"})
    return out
