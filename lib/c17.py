"""C17 — all call forms of a method agree.

For every receiver kind (int32, string, bool, struct, enum, two instances of a generic struct, a type of another package)
one program prints the result of every applicable call form: inherent `x.m(a)` / `T::m(x, a)`; trait `Tr::m(x, a)` on the
concrete receiver, `x.m(a)` and `Tr::m(x, a)` under a `T: Tr` bound, `Tr::m(d, a)` on `x` coerced to `dyn Tr` by an annotated
let and by passing it as an argument, and on a literal coerced directly.  GomlSem.tla selects the implementation by the
receiver's type (the meaning); GoSem.tla runs the emitted Go; all lines must be equal to the oracle's.  Ambiguous method
names under two bounds and dyn coercion without a visible impl must be rejected; the disambiguated spellings accepted."""
from common import *
import famcheck, fam_c17

LEVEL = "translation_validation"


def run(tier, rep):
    build_harness()
    progs = fam_c17.programs(tier)
    cases, counts = famcheck.run_families("C17", rep, progs, "c17")
    rep.coverage["go_invalid_not_decidable_here"] = counts.get("go-invalid", 0)
    rep.assumptions += famcheck.STD_ASSUMPTIONS
    if counts.get("agree", 0) < 12:
        raise ToolError("vacuity: fewer than 12 call-form programs compared")
