"""C17 — all call forms of a method agree.

For every receiver kind (int32, string, bool, struct, enum, two instances of a generic struct, a type of another package)
one program prints the result of every applicable call form: inherent `x.m(a)` / `T::m(x, a)`; trait `Tr::m(x, a)` on the
concrete receiver, `x.m(a)` and `Tr::m(x, a)` under a `T: Tr` bound, `Tr::m(d, a)` on `x` coerced to `dyn Tr` by an annotated
let and by passing it as an argument, and on a literal coerced directly.  GomlSem.tla selects the implementation by the
receiver's type (the meaning); GoSem.tla runs the emitted Go; all lines must be equal to the oracle's.  Ambiguous method
names under two bounds and dyn coercion without a visible impl must be rejected; the disambiguated spellings accepted."""
from common import *
import famcheck, fam_c17

LEVEL = "model_checking"


def run(tier, rep):
    build_harness()
    progs = fam_c17.programs(tier)
    # (a program whose Go text is not valid Go runs none of its call forms: reported here too, under the rule GoStatic.tla names)
    cases, counts = famcheck.run_families("C17", rep, progs, "c17", goinvalid_is_violation=True)
    rep.coverage["go_invalid"] = counts.get("go-invalid", 0)
    # ---- an inherent method defined for a generic type AND for one of its instantiations: whatever the language decides (reject
    # the overlap, or prefer one), `x.m()` and `T::m(x)` must run the same code - the two printed lines must be equal
    import engine
    root = workdir("c17-overlap")
    ocases = []
    for inst, lit in (("int32", "1"), ("string", '"s"'), ("bool", "true")):
        for order in ("generic-first", "instance-first"):
            g = "impl[T] Bx[T] { fn tag(self: Bx[T]) -> string { \"generic\" } }\n"
            i = f"impl Bx[{inst}] {{ fn tag(self: Bx[{inst}]) -> string {{ \"instance\" }} }}\n"
            text = ("struct Bx[T] { v: T }\n" + (g + i if order == "generic-first" else i + g) +
                    f"fn main() -> unit {{\n    let b: Bx[{inst}] = Bx {{ v: {lit} }};\n    let _ = string_println(b.tag());\n    let _ = string_println(Bx::tag(b));\n    ()\n}}\n")
            cid = f"overlap_{inst}_{order}".replace("-", "_")
            ocases.append({"id": cid, "path": engine.write_case(root, cid, text), "ident": f"c17:overlapping-inherent-impls:{inst}:{order}", "text": text})
    engine.evaluate(ocases, static=True, sem=True, name="c17-overlap")
    compared = 0
    for c in ocases:
        if c["compile"]["verdict"] != "ok" or not c["sem"] or c["sem"]["status"] != "ok":
            continue
        lines = c["sem"]["out"].decode("utf-8", "replace").splitlines()
        compared += 1
        if len(lines) != 2 or lines[0] != lines[1]:
            rep.violation(c["ident"], {"method_form_prints": lines[:1], "type_qualified_form_prints": lines[1:2], "source": c["text"]}, replay={"path": c["path"]})
    rep.coverage["overlapping_inherent_impls_compared"] = compared
    # ---- Resolve.tla: the resolution rules as a model, every (configuration, call form) replayed through the compiler
    import resolve
    rst = resolve.run(rep, tier)
    # every program below was put through the real compiler and its verdict / printed lines compared with what the model says
    # (GomlSem.tla for the call-form families, Resolve.tla for the (configuration, form) table): counted from this run
    rep.coverage["traces_validated_against_impl"] = (counts.get("agree", 0) + counts.get("differ", 0) + counts.get("rejected", 0)
                                                     + compared + rst["accepting_compared"] + rst["refusals_compared"])
    rep.assumptions += famcheck.STD_ASSUMPTIONS
    if counts.get("agree", 0) < 12:
        raise ToolError("vacuity: fewer than 12 call-form programs compared")
