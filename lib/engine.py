"""Shared translation-validation engine: goml program -> real compiler -> emitted Go text -> goparse -> GoStatic / GoSem (TLC).

A *case* is {"id": str, "path": abs path of main.gom (own directory), ...}.  evaluate() adds:
  compile : answer of `gv compile` (verdict, diags, go text)
  parse_error : message if the emitted text is not in the Go subset grammar
  static : {"nerr", "errs"} from GoStatic.tla      (when asked)
  sem    : {"status", "why", "out"(bytes), "steps"} from GoSem.tla (when asked)
"""
import os
from common import *
import gopipe, gohoist


def write_case(root, cid, text, extra_files=None):
    d = os.path.join(root, cid)
    os.makedirs(d, exist_ok=True)
    p = os.path.join(d, "main.gom")
    with open(p, "w") as f:
        f.write(text)
    for rel, t in (extra_files or {}).items():
        q = os.path.join(d, rel)
        os.makedirs(os.path.dirname(q), exist_ok=True)
        with open(q, "w") as f:
            f.write(t)
    return p


def evaluate(cases, static=True, sem=True, maxsteps=20000, dumps=False, name="eng", sem_timeout=3000):
    reqs = [{"id": c["id"], "path": c["path"], "dumps": dumps} for c in cases]
    answers = gv_parallel("compile", reqs)
    recs_static, recs_sem = [], []
    for c, a in zip(cases, answers):
        c["compile"] = a
        c["parse_error"] = None
        c["static"] = None
        c["sem"] = None
        if a["verdict"] != "ok":
            continue
        rec, err = gopipe.go_record(c["id"], a["go"])
        if err:
            c["parse_error"] = err
            continue
        if static:
            recs_static.append(rec)
        if sem:
            try:
                r2 = dict(rec, ast=gohoist.hoist(rec["ast"]))
                recs_sem.append(r2)
            except ValueError as e:
                c["sem"] = {"status": "unsupported", "why": str(e), "out": b"", "steps": 0}
    stats = {"states": 0, "transitions": 0}
    if recs_static:
        res, st = gopipe.run_sharded("GoStatic", "GoStatic.cfg", recs_static, name=name + "-static")
        for k in stats:
            stats[k] += st[k]
        for c in cases:
            if c["id"] in res:
                c["static"] = res[c["id"]]
    if recs_sem:
        res, st = gopipe.run_sharded("GoSem", "GoSem.cfg", recs_sem, extra_env={"MAXSTEPS": maxsteps}, name=name + "-sem",
                                     timeout=sem_timeout)
        for k in stats:
            stats[k] += st[k]
        for c in cases:
            if c["id"] in res:
                r = res[c["id"]]
                c["sem"] = {"status": r["status"], "why": r["why"], "out": bytes(r["out"]), "steps": r["steps"]}
    return stats


STATIC_UNSUPPORTED = ("unsupported package member", "unsupported statement")


def static_verdict(c):
    """'accept' | 'reject' | 'unsupported' | None (not compiled)"""
    if c["compile"]["verdict"] != "ok":
        return None
    if c["parse_error"]:
        return "reject"
    s = c["static"]
    if s is None:
        return None
    if s["nerr"] == 0:
        return "accept"
    if all(any(e["why"].startswith(u) for u in STATIC_UNSUPPORTED) for e in s["errs"]):
        return "unsupported"
    return "reject"


def static_reason(c):
    if c["parse_error"]:
        return "syntax: " + c["parse_error"]
    errs = [e for e in c["static"]["errs"] if not any(e["why"].startswith(u) for u in STATIC_UNSUPPORTED)]
    return errs[0]["why"] if errs else ""
