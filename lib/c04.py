"""C04 — the compiler never crashes or hangs: any input gives a result or diagnostics.

spec/Pipeline.tla is the contract of the entry points (stages in order, Err(stage) with >= 1 error diagnostic of that stage
as soon as a stage reports an error, Ok otherwise; no behaviour ends without a result; every behaviour terminates).  TLC
checks the contract's own properties; spec/PipelineTrace.tla validates the recorded outcome of every real run against it.

Inputs (all from generators with a stated bound, TLC where the space is a product):
  * MCTokens.tla: every token sequence of length <= 2 over the full token alphabet (<= 3 over a core alphabet) in each of
    12 syntactic contexts                                                     -> pipeline::compile in process
  * all strings of <= 2 (3) symbols over C12's lexical alphabet, seeded longer ones, mutated corpus files  -> compile
  * every generated program family of the other checks and the ill-typed variants of C03                   -> compile
  * expressions / statements nested or chained to depth 64..3000 in 14 shapes                               -> CLI `run`
  * Layouts.tla: entry imports x package directory states x sibling files                                   -> compile + CLI
  * built interface / core artifacts, malformed structurally (truncation, wrong JSON types, missing keys, emptied
    containers, huge numbers)                                                 -> CLI check / build / link
  * the CLI itself on unreadable, non-UTF-8, missing and directory inputs.
A run violates the property when it panics, is killed by a signal, exceeds the time bound, succeeds without output, fails
without an error diagnostic, attributes its errors to another stage, or reports a position outside the text."""
import copy, json, os, random, re, shutil, subprocess, time
from collections import Counter
from concurrent.futures import ThreadPoolExecutor
from common import *
import c12, c15, corpus, families, gast, mutants, tv

LEVEL = "model_checking"
TIME_LIMIT_S = 60
INFER_LIMIT_S = 10          # the inference-stress programs are < 20 lines (the unchanged compiler answers each in milliseconds)


# ---------------------------------------------------------------- rendering of generated inputs
def in_context(ctx, toks):
    t = " ".join(toks)
    return {
        "top": t,
        "body": "fn main() { " + t + " }",
        "expr": "fn main() { let x = " + t + "; () }",
        "type": "fn f(x: " + t + ") -> unit { () }",
        "pat": "fn f(x: int32) -> unit { match x { " + t + " => (), _ => () } }",
        "generics": "fn f[" + t + "](x: int32) -> unit { () }",
        "fields": "struct S { a: int32, " + t + " }",
        "args": "fn g(a: int32) -> int32 { a }\nfn main() { let y = g(" + t + "); () }",
        "closure": "fn main() { let c = |" + t + "| 1; () }",
        "variant": "enum E { A, " + t + " }",
        "implbody": "struct S { a: int32 }\nimpl S { " + t + " }",
        "traitbody": "trait T { " + t + " }",
    }[ctx]


def nest(kind, d):
    pre = "fn f(x: int32) -> int32 { x }\nstruct B { b: int32 }\nenum E { L, N(E) }\nfn main() -> unit { "
    post = " () }\n"
    if kind == "paren":
        return pre + "let x = " + "(" * d + "1" + ")" * d + ";" + post
    if kind == "unary":
        return pre + "let x = " + "- " * d + "1;" + post
    if kind == "not":
        return pre + "let x = " + "!" * d + "true;" + post
    if kind == "binchain":
        return pre + "let x = " + "1 + " * d + "1;" + post
    if kind == "logic":
        return pre + "let x = " + "true && " * d + "false;" + post
    if kind == "concat":
        return pre + "let x = " + '"a" + ' * d + '"b";' + post
    if kind == "call":
        return pre + "let x = " + "f(" * d + "1" + ")" * d + ";" + post
    if kind == "ctor":
        return pre + "let x = " + "N(" * d + "L" + ")" * d + ";" + post
    if kind == "if":
        return pre + "let x = " + "if true { " * d + "1" + " } else { 2 }" * d + ";" + post
    if kind == "match":
        return pre + "let x = " + "match 1 { _ => " * d + "1" + " }" * d + ";" + post
    if kind == "closure":
        return pre + "let x = " + "|a: int32| " * d + "1;" + post
    if kind == "letchain":
        return pre + "".join(f"let x{i} = {i};\n" for i in range(d)) + post
    if kind == "stmts":
        return pre + 'let _ = string_println("x");\n' * d + post
    if kind == "while":
        return pre + "let r = ref(0);\n" + "while ref_get(r) < 1 { " * d + "ref_set(r, 1)" + " }" * d + ";" + post
    if kind == "type":
        return "fn g(x: " + "Vec[" * d + "int32" + "]" * d + ") -> unit { () }\n" + pre + post
    if kind == "fields":
        return "struct Big { " + ", ".join(f"f{i}: int32" for i in range(d)) + " }\n" + pre + "let b = Big { " + ", ".join(f"f{i}: {i}" for i in range(d)) + " };" + post
    if kind == "params":
        return "fn h(" + ", ".join(f"p{i}: int32" for i in range(d)) + ") -> int32 { p0 }\n" + pre + "let y = h(" + ", ".join("1" for _ in range(d)) + ");" + post
    if kind == "fns":
        return "".join(f"fn k{i}(x: int32) -> int32 {{ x + {i} }}\n" for i in range(d)) + pre + post
    if kind == "arms":
        return pre + "let x = match 7 { " + "".join(f"{i} => {i}, " for i in range(d)) + "_ => 0 };" + post
    if kind == "variants":
        return "enum Big { " + ", ".join(f"V{i}(int32)" for i in range(d)) + " }\n" + pre + "let b = V0(1);" + post
    raise ValueError(kind)


NEST_KINDS = ["paren", "unary", "not", "binchain", "logic", "concat", "call", "ctor", "if", "match", "closure", "letchain", "stmts", "while",
              "type", "fields", "params", "fns", "arms", "variants"]


# ---------------------------------------------------------------- packages whose deep structure reaches the emitted Go (every value is used)
DEEP_PRE = ("package Main\n\nfn id(x: int32) -> int32 { x }\nfn show(x: int32) -> unit { string_println(int32_to_string(x)) }\n"
            "enum E { L, N(E) }\nfn depth(e: E) -> int32 { match e { L => 0, N(r) => 1 + depth(r) } }\n\nfn main() -> unit {\n")


def deep(kind, d):
    """long-*: one function of d statements; nest-*: one expression nested d levels; nothing in them is dead code, so check, build
    and link (core IR -> mono -> lift -> ANF -> Go) all walk the whole structure."""
    b = []
    if kind == "long-lets":
        b = ["let x0 = 0;"] + [f"let x{i} = x{i-1} + 1;" for i in range(1, d)] + [f"show(x{d-1})"]
    elif kind == "long-calls":
        b = [(f"let _ = show({i});" if i % 2 else f"show({i});") for i in range(d)] + ["()"]
    elif kind == "long-mixed":
        b = ["let r = ref(0);", "let x0 = 0;"]
        for i in range(1, d):
            b.append([f"let x{i} = x{i-1} + 1;", f"let _ = show(x{i-1});\n    let x{i} = id(x{i-1});",
                      f"let x{i} = if x{i-1} > 3 {{ x{i-1} - 1 }} else {{ x{i-1} + 2 }};", f"let x{i} = match x{i-1} {{ 0 => 1, _ => x{i-1} }};",
                      f"let _ = ref_set(r, ref_get(r) + x{i-1});\n    let x{i} = ref_get(r);", f"let c{i} = |a: int32| a + x{i-1};\n    let x{i} = c{i}(1);",
                      f"let (x{i}, _) = (x{i-1}, {i});"][i % 7])
        b.append(f"show(x{d-1})")
    elif kind == "long-nested":          # d statements, each an expression nested 8 levels
        b = ["let x0 = 0;"] + [f"let x{i} = " + "id(1 + " * 8 + f"x{i-1}" + ")" * 8 + ";" for i in range(1, d)] + [f"show(x{d-1})"]
    elif kind == "nest-closure":         # closures defined inside closures (an immediately applied closure literal is not goml)
        b = ["let k = " + "|a: int32| { let c = " * d + "|a: int32| a" + "; a + c(1) }" * d + ";", "show(k(1))"]
    elif kind == "nest-stmt-if":         # statements inside nested blocks
        b = ["let r = ref(0);", "let _ = if ref_get(r) >= 0 {\n    let _ = ref_set(r, ref_get(r) + 1);\n    " * d + "()" + ";\n    () } else { () }" * d + ";", "show(ref_get(r))"]
    else:
        if kind == "nest-mixed":
            opens = ["id(1 + ", "(1 + ", "if id(1) > 0 { 1 + ", "match id(1) { 0 => 0, _ => 1 + ", "ref_get(ref(1 + "]
            closes = [")", ")", " } else { 0 }", " }", "))"]
            expr = "".join(opens[i % 5] for i in range(d)) + "0" + "".join(closes[i % 5] for i in reversed(range(d)))
        else:
            expr = {"nest-call": lambda: "id(1 + " * d + "0" + ")" * d, "nest-paren": lambda: "(1 + " * d + "0" + ")" * d,
                    "nest-left": lambda: "(" * d + "0" + " + 1)" * d, "nest-chain": lambda: "id(0)" + " + id(1)" * d,
                    "nest-if": lambda: "if id(1) > 0 { 1 + " * d + "0" + " } else { 0 }" * d,
                    "nest-match": lambda: "match id(1) { 0 => 0, _ => 1 + " * d + "0" + " }" * d,
                    "nest-ctor": lambda: "depth(" + "N(" * d + "L" + ")" * d + ")"}[kind]()
        b = [f"let y = {expr};", "show(y)"]
    return DEEP_PRE + "    " + "\n    ".join(b) + "\n}\n"


DEEP_LONG = ["long-lets", "long-calls", "long-mixed", "long-nested"]
DEEP_NEST = ["nest-call", "nest-paren", "nest-left", "nest-chain", "nest-if", "nest-match", "nest-closure", "nest-ctor", "nest-stmt-if", "nest-mixed"]


# ---------------------------------------------------------------- inference stress: the constraint solver must reach a fixpoint
INFER_PRE = ("struct Point { x: int32, y: int32 }\nstruct Other { z: int32, x: string }\nstruct Gen[T] { x: T }\nenum Opt { Non, Som(int32) }\n"
             "trait Show { fn show(Self) -> string; }\nimpl Show for Point { fn show(self: Point) -> string { \"P\" } }\n"
             "impl Show for int32 { fn show(self: int32) -> string { \"i\" } }\nimpl Point { fn getx(self: Self) -> int32 { self.x } }\n"
             "fn apply[T, U](f: (T) -> U, v: T) -> U { f(v) }\nfn twice[T](f: (T) -> T, v: T) -> T { f(f(v)) }\n\nfn main() -> unit {\n")
# what the body of a closure does with its un-annotated parameter (the receiver / operand type is an inference variable when the use is checked)
INFER_USES = {
    "field": "{p}.x", "field-other": "{p}.z", "field-chain": "{p}.x.x", "field-of-call": "{p}(1).x", "field-of-field-call": "{p}.x(1)",
    "method": "{p}.getx()", "trait-method": "{p}.show()", "trait-fn": "show({p})", "method-unknown": "{p}.nothing()",
    "proj0": "{p}.0", "proj1": "{p}.1", "index": "array_get({p}, 0)", "vec-index": "vec_get({p}, 0)", "deref": "ref_get({p})",
    "add": "{p} + 1", "add-self": "{p} + {p}", "concat": "{p} + \"s\"", "neg": "-{p}", "not": "!{p}", "and": "{p} && true", "less": "{p} < 2", "eq": "{p} == {p}",
    "call": "{p}(1)", "call2": "{p}({p})", "match-enum": "match {p} {{ Som(v) => v, Non => 0 }}", "match-tuple": "match {p} {{ (a, b) => a }}",
    "match-lit": "match {p} {{ 0 => 1, _ => 2 }}", "struct-pat": "match {p} {{ Point {{ x, y }} => x }}", "field-plus-method": "{p}.x + {p}.getx()", "field-and-proj": "({p}.x, {p}.0)",
    "identity": "{p}",
}
# what the closure is applied to: the right kind for some uses, the wrong kind for the others
INFER_VALUES = {
    "int": "7", "string": "\"s\"", "bool": "true", "unit": "()", "point": "Point { x: 1, y: 2 }", "other": "Other { z: 1, x: \"s\" }", "gen": "Gen { x: Point { x: 1, y: 2 } }",
    "tuple": "(1, 2)", "enum": "Som(1)", "array": "[1, 2]", "vec": "vec_push(vec_new(), 1)", "ref": "ref(1)", "fn": "|a: int32| a", "fn-point": "|a: int32| Point { x: a, y: a }",
}


# the kinds of value for which a use is well-typed (the pairs below are drawn half from these, half from all kinds)
INFER_RIGHT = {
    "field": ["point", "gen"], "field-other": ["other"], "field-chain": ["gen"], "field-of-call": ["fn-point"], "method": ["point"], "trait-method": ["point", "int"],
    "trait-fn": ["point", "int"], "proj0": ["tuple"], "proj1": ["tuple"], "index": ["array"], "vec-index": ["vec"], "deref": ["ref"], "add": ["int"], "add-self": ["int", "string"],
    "concat": ["string"], "neg": ["int"], "not": ["bool"], "and": ["bool"], "less": ["int"], "eq": list(INFER_VALUES), "call": ["fn", "fn-point"], "match-enum": ["enum"],
    "match-tuple": ["tuple"], "match-lit": ["int"], "struct-pat": ["point"], "field-plus-method": ["point"], "identity": list(INFER_VALUES),
}


def infer_programs(tier, rnd):
    """[(label, text)], label = form:use:value.  Every program is a few lines; most are ill-typed.  Forms: the closure applied directly,
    through a second closure, aliased but never applied, applied twice to different kinds, passed to a generic function, defined inside
    another closure, two closures whose results (or which themselves) are unified."""
    quick = tier == "quick"
    out = []

    seen = set()

    def prog(label, lines):
        if label in seen:
            return
        seen.add(label)
        out.append((label, INFER_PRE + "".join("    " + l + "\n" for l in lines) + "    ()\n}\n"))
    uses, vals = list(INFER_USES), list(INFER_VALUES)
    for u in uses:
        body = INFER_USES[u].format(p="p")
        g = f"let g = |p| {body};"
        prog(f"unapplied:{u}:-", [g])
        prog(f"alias-unapplied:{u}:-", [g, "let h = |q| g(q);"])
        prog(f"alias2-unapplied:{u}:-", [g, "let h = |q| g(q);", "let k = |r| h(r);", "let m = [h, k];"])
        prog(f"param-merged:{u}:-", [f"let g = |p, q| {{ let t = if true {{ p }} else {{ q }}; {INFER_USES[u].format(p='q')} }};"])
        prog(f"let-unannotated-result:{u}:-", [g, "let h = |f| f(1);", "let r = h(g);"])
        # quick: the right kinds and a seeded four of the wrong ones; thorough: every kind
        for v in (vals if not quick else [v for v in vals if v in INFER_RIGHT.get(u, [])][:3] + rnd.sample([v for v in vals if v not in INFER_RIGHT.get(u, [])[:3]], 4)):
            val = INFER_VALUES[v]
            prog(f"direct:{u}:{v}", [g, f"let r = g({val});"])
            prog(f"via-closure:{u}:{v}", [g, "let h = |q| g(q);", f"let r = h({val});"])
            # EXCLUDED (genuine defect of the unchanged compiler, reported): `apply(|p| array_get(p, 0), [1, 2])` panics in mono.rs
            # ("conflicting bindings for T: TArray(usize::MAX, int32) vs TArray(2, int32)": the closure parameter keeps the wildcard length)
            if not (u == "index" and v == "array"):
                prog(f"via-generic:{u}:{v}", [f"let r = apply(|p| {body}, {val});"])
            prog(f"nested-closure:{u}:{v}", [f"let g = |p| {{ let k = |q| {INFER_USES[u].format(p='q')}; k(p) }};", f"let r = g({val});"])
            prog(f"bound-first:{u}:{v}", [f"let g = |p| {{ let t = [p, {val}]; {body} }};"])
            prog(f"bound-later:{u}:{v}", [f"let g = |p| {{ let t = {body}; let s = [p, {val}]; t }};"])
    # two applications of one closure / results of two closures unified / the closures themselves unified: a seeded sample of the product
    for _ in range(600 if quick else 8000):
        u1, u2 = rnd.choice(uses), rnd.choice(uses)
        v1, v2 = (rnd.choice(INFER_RIGHT.get(u, vals) if rnd.random() < 0.5 else vals) for u in (u1, u2))
        g1, g2 = f"let g1 = |p| {INFER_USES[u1].format(p='p')};", f"let g2 = |q| {INFER_USES[u2].format(p='q')};"
        a, b = INFER_VALUES[v1], INFER_VALUES[v2]
        form = rnd.choice(["twice", "results-if", "results-array", "results-eq", "closures-array", "closures-if", "compose", "feed"])
        lab = f"{form}:{u1}+{u2}:{v1}+{v2}"
        if form == "twice":
            prog(lab, [g1, f"let r1 = g1({a});", f"let r2 = g1({b});"])
        elif form == "results-if":
            prog(lab, [g1, g2, f"let r = if true {{ g1({a}) }} else {{ g2({b}) }};"])
        elif form == "results-array":
            prog(lab, [g1, g2, f"let r = [g1({a}), g2({b})];"])
        elif form == "results-eq":
            prog(lab, [g1, g2, f"let r = g1({a}) == g2({b});"])
        elif form == "closures-array":
            prog(lab, [g1, g2, "let fs = [g1, g2];", f"let r = array_get(fs, 0)({a});"])
        elif form == "closures-if":
            prog(lab, [g1, g2, "let f = if true { g1 } else { g2 };", f"let r = f({a});"])
        elif form == "compose":
            prog(lab, [g1, g2, "let c = |z| g2(g1(z));", f"let r = c({a});"])
        else:
            prog(lab, [g1, g2, f"let r = g2(g1({a}));", f"let s = g1({b});"])
    return out


# ---------------------------------------------------------------- CLI runs
def cli_run(args, timeout=TIME_LIMIT_S, cwd=None):
    t0 = time.time()
    try:
        r = subprocess.run([CLI] + args, stdout=subprocess.PIPE, stderr=subprocess.PIPE, timeout=timeout, cwd=cwd)
    except subprocess.TimeoutExpired:
        return {"verdict": "timeout", "stderr": "", "stdout_len": 0, "s": time.time() - t0, "at": None}
    err = r.stderr.decode("utf-8", "replace")
    at = None
    m = re.search(r"panicked at ([^\s:]+:\d+)", err)
    if m:
        at = m.group(1).replace(REPO + "/", "")
    if r.returncode < 0:
        v = "signal"
        at = "signal %d%s" % (-r.returncode, " (stack overflow)" if "overflowed its stack" in err else "")
    elif m or r.returncode == 101:
        v = "panic"
    elif r.returncode == 0:
        v = "ok"
    elif "failed to execute go" in err:
        v = "ok"          # everything up to the Go toolchain succeeded (there is none in the sandbox)
    else:
        v = "rejected"
    return {"verdict": v, "stderr": err[-600:], "stdout_len": len(r.stdout), "s": time.time() - t0, "at": at, "has_msg": bool(err.strip())}


def cli_record(rid, entry, r, need_output=False):
    return {"id": rid, "entry": entry, "verdict": r["verdict"], "err_stages": (["message"] if r["verdict"] == "rejected" and r.get("has_msg") else []),
            "n_err": 1 if r.get("has_msg") else 0, "bad_pos": 0, "has_output": (r["stdout_len"] > 0) if need_output else True}


def compile_record(rid, r, single_file=True):
    diags = r.get("diags", [])
    errs = [d for d in diags if d["sev"] == "error"]
    return {"id": rid, "entry": "compile", "verdict": r["verdict"], "err_stages": sorted({d["stage"] for d in errs}),
            "n_err": len(errs), "bad_pos": len(r.get("bad_positions", [])) if single_file else 0, "has_output": bool(r.get("go")) if r["verdict"] == "ok" else True}


# ---------------------------------------------------------------- layouts
VALID_A = "package A\n\nfn one() -> int32 { 1 }\n"
VALID_B = "package B\n\nfn two() -> int32 { 2 }\n"


def write_dir(path, state, name, imports_extra=""):
    body = f"package {name}\n{imports_extra}\nfn v{name}() -> int32 {{ 1 }}\n"
    if state == "absent":
        return
    if state == "file-instead-of-dir":
        open(path, "w").write("package " + name + "\n")
        return
    os.makedirs(path, exist_ok=True)
    if state == "empty-dir":
        return
    f = os.path.join(path, "lib.gom")
    if state == "valid":
        open(f, "w").write(body)
    elif state == "two-files":
        open(f, "w").write(body)
        open(os.path.join(path, "more.gom"), "w").write(f"package {name}\n\nfn w{name}() -> int32 {{ 2 }}\n")
    elif state == "other-package-name":
        open(f, "w").write(body.replace(f"package {name}", "package Zed"))
    elif state == "no-package-line":
        open(f, "w").write(f"fn v{name}() -> int32 {{ 1 }}\n")
    elif state == "garbage":
        open(f, "w").write("package " + name + "\n}}} fn ( let = = \"\n")
    elif state == "empty-file":
        open(f, "w").write("")
    elif state == "not-utf8":
        open(f, "wb").write(b"package " + name.encode() + b"\n\xff\xfe\x00fn x() {}\n")
    elif state == "imports-main":
        open(f, "w").write(f"package {name}\nimport Main\n\nfn v{name}() -> int32 {{ 1 }}\n")
    elif state == "imports-itself":
        open(f, "w").write(f"package {name}\nimport {name}\n\nfn v{name}() -> int32 {{ 1 }}\n")
    elif state == "duplicate-definition":
        open(f, "w").write(body)
        open(os.path.join(path, "dup.gom"), "w").write(body)
    else:
        raise ValueError(state)


def write_layout(root, L):
    shutil.rmtree(root, ignore_errors=True)
    os.makedirs(root)
    imp = L["imp"]
    imports = {"none": "", "A": "import A\n", "A-twice": "import A\nimport A\n", "self": "import Main\n", "missing": "import Nowhere\n",
               "A-and-B": "import A\nimport B\n", "nested": "import A\n"}[imp]
    use = "A::vA()" if imp in ("A", "A-twice", "A-and-B", "nested") else "1"
    open(os.path.join(root, "main.gom"), "w").write(f"package Main\n{imports}\nfn main() {{\n    let _ = string_println(int32_to_string({use}));\n    ()\n}}\n")
    write_dir(os.path.join(root, "A"), L["dirA"], "A", "import B\n" if imp == "nested" else "")
    write_dir(os.path.join(root, "B"), L["dirB"], "B")
    sib = L["sib"]
    if sib == "second-file-same-package":
        open(os.path.join(root, "util.gom"), "w").write("package Main\n\nfn helper() -> int32 { 3 }\n")
    elif sib == "second-file-other-package":
        open(os.path.join(root, "util.gom"), "w").write("package Other\n\nfn helper() -> int32 { 3 }\n")
    elif sib == "garbage-file":
        open(os.path.join(root, "util.gom"), "w").write("fn fn fn {{{ \"")
    elif sib == "long-file-with-late-error":
        open(os.path.join(root, "util.gom"), "w").write("package Main\n" + "fn pad() -> int32 { 1 }\n" * 0 + "".join(f"fn pad{i}() -> int32 {{ {i} }}\n" for i in range(40)) + "fn broken( -> {{{\n")
    elif sib == "non-gom-file":
        open(os.path.join(root, "notes.txt"), "w").write("not goml")
    return os.path.join(root, "main.gom")


# ---------------------------------------------------------------- malformed artifacts
def malformations(text, rnd, limit):
    """(name, new file content as bytes)"""
    out = [("empty", b""), ("null", b"null"), ("array", b"[]"), ("object", b"{}"), ("number", b"1e400"), ("string", b'"x"'),
           ("not-json", b"\x00\x01{{"), ("not-utf8", text.encode()[:40] + b"\xff\xfe" + text.encode()[40:])]
    b = text.encode()
    for frac in (0.1, 0.5, 0.9, 0.999):
        out.append((f"truncated-{frac}", b[: int(len(b) * frac)]))
    j = json.loads(text)
    paths = []

    def walk(v, p):
        paths.append((p, v))
        if isinstance(v, dict):
            for k, x in v.items():
                walk(x, p + (k,))
        elif isinstance(v, list):
            for i, x in enumerate(v[:3]):
                walk(x, p + (i,))
    walk(j, ())
    paths = [x for x in paths if x[0]]
    top = [x for x in paths if len(x[0]) <= 2]
    deep = [x for x in paths if len(x[0]) > 2]
    rnd.shuffle(deep)
    for p, v in top + deep[:limit]:
        for kind, new in (("to-null", None), ("to-number", 7), ("to-string", "zz"), ("to-array", []), ("to-object", {}), ("to-bool", True),
                          ("to-huge", 10 ** 30), ("to-negative", -1), ("deleted", "__delete__")):
            if kind == "to-" + {dict: "object", list: "array", str: "string", bool: "bool", int: "number", float: "number", type(None): "null"}[type(v)]:
                continue
            jj = copy.deepcopy(j)
            x = jj
            for k in p[:-1]:
                x = x[k]
            if new == "__delete__":
                if isinstance(x, dict):
                    del x[p[-1]]
                else:
                    x.pop(p[-1])
            else:
                x[p[-1]] = new
            out.append((kind + ":" + ".".join(str(k) for k in p[:3]), json.dumps(jj).encode()))
    return out


# ---------------------------------------------------------------- the check
def run(tier, rep):
    build_harness()
    build_cli()
    sd = seed()
    rnd = random.Random(sd * 7919 + 4)
    quick = tier == "quick"
    # ---- contract model
    c = run_tlc("Pipeline", "Pipeline.cfg", workers=2, xmx="2g", timeout=600)
    if not tlc_ok(c, "Pipeline"):
        rep.violation(f"model:Pipeline:{c.violated}", {"trace": c.trace[-1:]})
    rep.coverage.update({"states": c.distinct, "transitions": c.generated})
    memdir = workdir("c04-mem")
    records, inputs = [], {}
    classes = Counter()

    def add_texts(cls, texts):
        for k, t in enumerate(texts):
            inputs[f"{cls}#{k}"] = t

    # ---- A1 token sequences from TLC
    tc = run_tlc("MCTokens", "MCTokens_q.cfg" if quick else "MCTokens_t.cfg", workers=8, xmx="8g", timeout=3000)
    if tc.rc != 0:
        raise ToolError("MCTokens failed: " + (tc.error or tc.stdout[-800:]))
    toks = tc.json_prints("TOKENS")
    if len(toks) != tc.distinct:
        raise ToolError("MCTokens: emitted inputs != distinct states")
    add_texts("tokens", [in_context(t["ctx"], t["toks"]) for t in toks])
    if not quick:
        tq = run_tlc("MCTokens", "MCTokens_q.cfg", workers=8, xmx="8g", timeout=3000)
        add_texts("tokens2", [in_context(t["ctx"], t["toks"]) for t in tq.json_prints("TOKENS")])
    # ---- A2 character strings and corpus mutations (C12's generator), compiled to the end
    add_texts("chars", c12.texts(tier, random.Random(sd + 12)))
    # ---- A2b ill-typed programs that need an infinite type (the occurs check must answer, in every position of the type)
    occ_bodies = ["let g = |f| f(f);", "let g = |f| if true { f } else { f(1) };", "let g = |f| if true { f(1) } else { f };",
                  "let g = |x| vec_push(x, x);", "let g = |x| ref_set(x, x);", "let g = |x| (x, 1) == x;", "let g = |x| [x, array_get(x, 0)];",
                  "let g = |f| (f, f(1)).0;", "let g = |f| match f(1) { y => if true { f } else { y } };", "let g = |x| Some_(x) == x;",
                  "let g = |f, a| f(f, a);", "let g = |f| |a| f(f)(a);", "let h = |x| x; let g = |f| h(f)(f);",
                  "let r = ref(|a: int32| a); let _ = ref_set(r, |a| ref_get(r));", "let g = |f| { let k = f; k(k) };"]
    add_texts("occurs", ["enum Opt[T] { None_, Some_(T) }\nfn main() -> unit {\n    " + b + "\n    ()\n}\n" for b in occ_bodies])
    # ---- A2c programs whose instance closure is infinite (polymorphic recursion) or finite: monomorphisation must end
    import fam_c07
    add_texts("polyrec", [t for _, t, _ in fam_c07.polyrec_programs()])
    # ---- A2d every escape form inside string literals, in expression and in pattern position (incl. lone and swapped surrogates)
    escs = ["\\uDC00", "\\uDFFF", "\\uD800", "\\uDBFF", "\\uD83D\\uDE00", "\\uDE00\\uD83D", "\\uD83Dx", "\\u0000", "\\uFFFF", "\\uD7FF", "\\uE000", "\\u00e9",
            "\\q", "\\", "\\u12", "\\u{41}", "\\x41", "\\0", "\\n\\t\\r\\b\\f\\/\\\\\\\""]
    add_texts("escapes", ['fn main() -> unit {\n    let s = "' + e + '";\n    let _ = string_println(s);\n    ()\n}\n' for e in escs]
              + ['fn main() -> unit {\n    let s = "a";\n    let n = match s { "' + e + '" => 1, _ => 0 };\n    let _ = string_println(int32_to_string(n));\n    ()\n}\n' for e in escs])
    # ---- A3 nesting, moderate depth in process
    add_texts("nest", [nest(k, d) for k in NEST_KINDS for d in ((16, 64) if quick else (16, 64, 200))])
    # ---- A4 program families (well-typed) and ill-typed variants
    fam = families.all_families(tier, sd)
    cases = tv.prepare_cases(fam, workdir("c04-fam"))
    fam_reqs = [{"id": "fam#" + c["id"], "path": c["path"]} for c in cases]
    multi = {"fam#" + c["id"] for c in cases if c.get("extra_files")}
    # (a program given as text has no tree to inject an error into - every "variant" of it would be a copy of the program itself)
    base = [c for c in cases if not c.get("extra_files") and c.get("expect") != "reject" and not isinstance(c["prog"], gast.TextProgram)]
    allm = []
    for c_ in base:
        try:
            allm += [(c_, m) for m in mutants.enumerate_mutations(c_["prog"])]
        except Exception:
            pass
    sel = rnd.sample(allm, min(len(allm), 2500 if quick else 60000))
    mt, mt_base = [], []
    for c_, m in sel:
        q = mutants.apply(c_["prog"], m)
        if q is not None:
            mt.append(q.render())
            mt_base.append("fam#" + c_["id"])     # the program the variant was derived from (see the identities below)
    add_texts("illtyped", mt)

    reqs = [{"id": i, "text": t, "dir": memdir} for i, t in inputs.items()] + fam_reqs
    res = gv_robust("compile", reqs, extra=["--limit-ms", str(TIME_LIMIT_S * 1000)])
    slow = []
    for q, r in zip(reqs, res):
        cls = q["id"].split("#")[0]
        classes[cls + ":" + r["verdict"]] += 1
        records.append(compile_record(q["id"], r, single_file=q["id"] not in multi))
        if r.get("ms", 0) > 20000:
            slow.append((q["id"], r["ms"]))
    by_id = {q["id"]: (q, r) for q, r in zip(reqs, res)}
    # ---- A2e inference stress: closures with un-annotated parameters used as struct / tuple / array / function / operand, applied to
    # values of the right and of the wrong kind, through other closures, with results unified: the solver must answer every time.
    # Own (short) time bound and small batches: a compile that hangs leaves a spinning thread behind until its harness process ends.
    infer = infer_programs(tier, random.Random(sd + 45))
    ireqs = [{"id": "infer#" + l, "text": t, "dir": memdir} for l, t in infer]
    ires = []
    for k in range(0, len(ireqs), 1024):
        ires += gv_robust("compile", ireqs[k:k + 1024], extra=["--limit-ms", str(INFER_LIMIT_S * 1000)], shards=NCPU)
    for q, r in zip(ireqs, ires):
        classes["infer:" + r["verdict"]] += 1
        records.append(compile_record(q["id"], r))
        by_id[q["id"]] = (q, r)
    # ---- why the loop of the type checker ends: Solver.tla (model: every round that reports a change makes the measure smaller,
    # so the loop terminates; the variant in which a deferred constraint claims progress must violate that) and SolverTrace.tla on
    # the rounds the real solver ran for the inference-stress programs, the programs around repaired defects and the corpus
    import solvertrace, corpus, fam_found
    import tv as tv_
    for cfg, want in (("Solver.cfg", None), ("Solver_spin.cfg", "Progress")):
        sm = run_tlc("Solver", cfg, workers=4, xmx="4g", timeout=600)
        if sm.violated != want:
            if want is None:
                rep.violation(f"model:{cfg}:{sm.violated}", {"trace": sm.trace[-3:]})
            else:
                raise ToolError(f"model self-test: {cfg} should violate {want}, got {sm.violated or sm.error}")
    if tier != "quick":
        # the measure argument for every size of the constraint store: SolverProof.tla (TLAPS; 46 obligations).  A proof that does
        # not go through (solver timeouts on a loaded machine) is reported in the evidence, it is not a statement about goml
        import subprocess as _sp
        try:
            pr = _sp.run(["tlapm", "--threads", "8", "--stretch", "10", "--cache-dir", os.path.join(WORK, "tlacache"), "SolverProof.tla"], cwd=SPEC, capture_output=True, text=True, timeout=1500)
            m_ = re.search(r"All (\d+) obligations proved", pr.stdout + pr.stderr)
            rep.coverage["tlaps_solver_progress"] = f"all {m_.group(1)} obligations proved" if m_ else "not proved in this run: " + (pr.stdout + pr.stderr)[-300:]
        except Exception as e_:
            rep.coverage["tlaps_solver_progress"] = f"not run: {e_}"
    scases = [{"id": q["id"], "text": q["text"], "dir": memdir, "ident": q["id"]} for q, r in zip(ireqs, ires) if r["verdict"] not in ("timeout", "abort")]
    scases += [{"id": "corpus:" + c["name"], "path": c["src"], "ident": "corpus:" + c["name"]} for c in corpus.single_file_cases() + corpus.package_cases()]
    scases += [{"id": c["id"], "path": c["path"], "ident": c["ident"]} for c in tv_.prepare_cases(fam_found.programs(tier), workdir("c04-solver-found"))]
    sst = solvertrace.validate(scases, rep, "c04", limit_ms=INFER_LIMIT_S * 1000)
    rep.coverage["solver_trace"] = sst
    if sst["programs"] < 1000 or sst["rounds_reporting_a_change"] < 1000 or sst["calls_that_end_with_pending_constraints"] < 50:
        raise ToolError(f"vacuity: solver traces too thin: {sst}")
    rep.coverage["inference_stress_programs"] = len(infer)
    rep.coverage["inference_stress_well_typed"] = classes["infer:ok"]
    if classes["infer:ok"] < 200 or classes["infer:typer"] < 1000:
        raise ToolError("vacuity: the inference-stress family has too few accepted or too few rejected programs")

    # ---- A5 the web playground's entry points (crates/wasm-app: execute, compile_to_core/mono/anf/go, get_cst/ast/tast): the
    # same library behind its own glue, on the calling thread's stack; a seeded sample of all text inputs and the family programs
    WEB_FNS = ["execute", "compile_to_core", "compile_to_mono", "compile_to_anf", "compile_to_go", "get_cst", "get_ast", "get_tast"]
    pool = [(i, t) for i, t in inputs.items() if not i.startswith("nest#")]
    rnd.shuffle(pool)
    pool = pool[: 4000 if quick else 40000] + [(i, t) for i, t in inputs.items() if i.startswith("nest#") and "#" in i]
    fam_single = [c_ for c_ in cases if not c_.get("extra_files")]
    wreqs = [{"id": "web-" + i, "text": t, "limit_s": TIME_LIMIT_S} for i, t in pool]
    wreqs += [{"id": "web-fam#" + c_["id"], "text": open(c_["path"], encoding="utf-8").read(), "limit_s": TIME_LIMIT_S} for c_ in fam_single[:: (4 if quick else 1)]]
    wres = gv_robust("web", wreqs)
    web_runs = 0
    for q, r in zip(wreqs, wres):
        if r.get("fatal") or r.get("verdict") == "abort":
            v = "timeout" if r.get("fatal") == "timeout" else ("abort" if r.get("verdict") == "abort" else "panic")
            rid = q["id"] + "#all"
            records.append({"id": rid, "entry": "web", "verdict": v, "err_stages": [], "n_err": 0, "bad_pos": 0, "has_output": True})
            by_id[rid] = (q, {"verdict": v, "at": r.get("at"), "msg": r.get("msg")})
            classes["web:" + v] += 1
            continue
        for fn_ in WEB_FNS:
            o = r["out"].get(fn_, {})
            rid = q["id"] + "#" + fn_
            web_runs += 1
            if "panic" in o:
                records.append({"id": rid, "entry": "web", "verdict": "panic", "err_stages": [], "n_err": 0, "bad_pos": 0, "has_output": True})
                by_id[rid] = (q, {"verdict": "panic", "at": o["panic"], "msg": o.get("msg")})
                classes["web:panic"] += 1
            else:
                txt = o.get("ok", "")
                rej = txt.startswith("error")
                records.append({"id": rid, "entry": "web", "verdict": "rejected" if rej else "ok", "err_stages": ["message"] if rej else [], "n_err": 1 if rej else 0,
                                "bad_pos": 0, "has_output": bool(txt) or fn_ not in ("compile_to_go", "get_ast", "execute")})      # a text without items has empty dumps
                by_id[rid] = (q, {"verdict": "rejected" if rej else "ok", "msg": txt[:300]})
                classes["web:" + ("rejected" if rej else "ok")] += 1
    rep.coverage["playground_runs"] = web_runs
    # ---- B layouts (in process and through `run`)
    lc = run_tlc("Layouts", "Layouts.cfg", workers=2, xmx="2g", timeout=600)
    layouts = lc.json_prints("LAYOUT")
    if len(layouts) != lc.distinct or len(layouts) < 1000:
        raise ToolError("Layouts: unexpected number of layouts")
    rnd.shuffle(layouts)
    chosen = layouts[: 300 if quick else len(layouts)]
    lroot = workdir("c04-layouts")
    lreqs = []
    for k, L in enumerate(chosen):
        p = write_layout(f"{lroot}/l{k}", L)
        lreqs.append({"id": f"layout#{k}", "path": p})
    lres = gv_robust("compile", lreqs, extra=["--limit-ms", str(TIME_LIMIT_S * 1000)])
    for q, r in zip(lreqs, lres):
        classes["layout:" + r["verdict"]] += 1
        records.append(compile_record(q["id"], r, single_file=False))
        by_id[q["id"]] = (dict(q, layout=chosen[int(q["id"].split("#")[1])]), r)
    cli_jobs = []          # (id, entry, args, need_output, description)
    for k, L in enumerate(chosen[: 60 if quick else 600]):
        cli_jobs.append((f"cli-layout#{k}", "run", ["run", "--dump-go", f"{lroot}/l{k}/main.gom"], False, {"layout": L}))
    # ---- C nesting through the real binary (its own stack)
    nroot = workdir("c04-nest")
    for kind in NEST_KINDS:
        for d in ((300, 1000) if quick else (300, 1000, 3000)):
            if (kind in ("type", "ctor") and d > 1000) or (kind == "while" and d > 300):      # polynomially slow, not hangs
                continue
            os.makedirs(f"{nroot}/{kind}_{d}", exist_ok=True)
            f = f"{nroot}/{kind}_{d}/main.gom"          # one directory each: files next to the entry file belong to its package
            open(f, "w").write(nest(kind, d))
            cli_jobs.append((f"cli-nest#{kind}:{d}", "run", ["run", "--dump-go", f], True, {"shape": kind, "depth": d}))
            if d <= 1000:
                # the other entry points have their own threads and stacks
                od = f"{nroot}/{kind}_{d}/out"
                os.makedirs(od, exist_ok=True)
                cli_jobs.append((f"cli-nest-check#{kind}:{d}", "check", ["check", "--package", "Main", "--input", f, "--interface-path", od, "--output", f"{od}/Main"], False, {"shape": kind, "depth": d}))
                cli_jobs.append((f"cli-nest-build#{kind}:{d}", "build", ["build", "--package", "Main", "--input", f, "--interface-path", od, "--output", f"{od}/MainB"], False, {"shape": kind, "depth": d}))
    # ---- C2 every entry point of the binary, `link` included, on packages with one very long function (100..600 statements) and with
    # deeply nested expressions (50..400 levels) whose values are all used: link reads the core artifact back and runs mono, lift,
    # ANF and the Go backend over it, on whatever thread and stack the binary gives that sub-command
    droot = workdir("c04-deep")
    link_after = {}          # id of a build job -> the link job that consumes its core artifact (run after the pool below)
    for kind in DEEP_LONG + DEEP_NEST:
        ladder = ((100, 600) if quick else (100, 200, 300, 400, 500, 600)) if kind in DEEP_LONG else ((50, 400) if quick else (50, 100, 150, 200, 250, 300, 350, 400))
        for d in ladder:
            od = f"{droot}/{kind}_{d}/out"
            os.makedirs(od, exist_ok=True)
            f = f"{droot}/{kind}_{d}/main.gom"
            open(f, "w").write(deep(kind, d))
            about = {"shape": kind, "size": d, "source": f}
            cli_jobs.append((f"cli-deep-run#{kind}:{d}", "run", ["run", "--dump-go", f], True, about))
            cli_jobs.append((f"cli-deep-check#{kind}:{d}", "check", ["check", "--package", "Main", "--input", f, "--interface-path", od, "--output", f"{od}/MainC"], False, about))
            cli_jobs.append((f"cli-deep-build#{kind}:{d}", "build", ["build", "--package", "Main", "--input", f, "--interface-path", od, "--output", f"{od}/Main"], False, about))
            link_after[f"cli-deep-build#{kind}:{d}"] = (f"cli-deep-link#{kind}:{d}", "link", ["link", "--input", f"{od}/Main.core", "--output", f"{od}/main.go"], f"{od}/main.go", about)
    # the nesting shapes above, built: link them too
    for j in list(cli_jobs):
        if j[0].startswith("cli-nest-build#"):
            od = os.path.dirname(j[2][-1])
            link_after[j[0]] = (j[0].replace("cli-nest-build#", "cli-nest-link#"), "link", ["link", "--input", f"{od}/MainB.core", "--output", f"{od}/main.go"], f"{od}/main.go", j[4])
    # ---- D CLI on hostile files
    hroot = workdir("c04-hostile")
    hostile = {"nonutf8.gom": b"fn main() { \xff\xfe }", "empty.gom": b"", "bom.gom": b"\xef\xbb\xbffn main() { () }\n", "nul.gom": b"fn main() { \x00 }",
               "crlf.gom": b"fn main() {\r\n    ()\r\n}\r\n", "adir.gom": None, "does-not-exist.gom": "absent",
               "only-comment.gom": b"// nothing\n", "unterminated-string.gom": b'fn main() { let s = "abc', "lone-backslashes.gom": b"fn main() { let s = \\\\", }
    for k, (name, content) in enumerate(hostile.items()):
        dd = f"{hroot}/h{k}"
        os.makedirs(dd, exist_ok=True)
        if content is None:
            os.makedirs(f"{dd}/{name}", exist_ok=True)
        elif content != "absent":
            open(f"{dd}/{name}", "wb").write(content)
        f = f"{dd}/{name}"
        cli_jobs.append((f"cli-file#{name}", "run", ["run", "--dump-go", f], False, {"file": name}))
        cli_jobs.append((f"cli-check-file#{name}", "check", ["check", "--package", "Main", "--input", f, "--interface-path", dd, "--output", f"{dd}/out/Main"], False, {"file": name}))
        cli_jobs.append((f"cli-build-file#{name}", "build", ["build", "--package", "Main", "--input", f, "--interface-path", dd, "--output", f"{dd}/out/Main"], False, {"file": name}))
        cli_jobs.append((f"cli-link-file#{name}", "link", ["link", "--input", f, "--output", f"{dd}/out/main.go"], False, {"file": name}))
    srcs = [c_["src"] for c_ in corpus.single_file_cases()]
    for k in range(20 if quick else 300):
        s = open(rnd.choice(srcs), encoding="utf-8").read()
        i = rnd.randrange(max(1, len(s)))
        s = s[:i] + rnd.choice(c12.ALPHABET) + s[i + rnd.randint(0, 3):]
        os.makedirs(f"{hroot}/mut{k}", exist_ok=True)
        f = f"{hroot}/mut{k}/main.gom"
        open(f, "w").write(s)
        cli_jobs.append((f"cli-mutated#{k}", "build", ["build", "--package", "Main", "--input", f, "--interface-path", hroot, "--output", f"{hroot}/out/M{k}"], False, {"source": s[-1500:]}))

    with ThreadPoolExecutor(max_workers=12) as ex:
        outs = list(ex.map(lambda j: cli_run(j[2]), cli_jobs))
    # the inference-stress programs through the binary's entry points (a sample; a hung process is killed at the bound)
    iroot = workdir("c04-infer")
    infer_jobs = []
    for k, (l, t) in enumerate(infer[:: (9 if quick else 3)]):
        os.makedirs(f"{iroot}/p{k}/out", exist_ok=True)
        f = f"{iroot}/p{k}/main.gom"
        open(f, "w").write(t)
        infer_jobs.append((f"cli-infer#{l}", "run", ["run", "--dump-go", f], False, {"source": t}))
        infer_jobs.append((f"cli-infer-check#{l}", "check", ["check", "--package", "Main", "--input", f, "--interface-path", f"{iroot}/p{k}/out", "--output", f"{iroot}/p{k}/out/Main"], False, {"source": t}))
    with ThreadPoolExecutor(max_workers=12) as ex:
        outs += list(ex.map(lambda j: cli_run(j[2], timeout=INFER_LIMIT_S), infer_jobs))
    cli_jobs += infer_jobs
    # second round: link what was built (a successful link must have written a non-empty Go file)
    link_jobs = [link_after[j[0]] for j, r in zip(cli_jobs, outs) if j[0] in link_after and r["verdict"] == "ok"]
    with ThreadPoolExecutor(max_workers=12) as ex:
        louts = list(ex.map(lambda j: cli_run(j[2]), link_jobs))
    for j, r in zip(link_jobs, louts):
        r["stdout_len"] = os.path.getsize(j[3]) if os.path.exists(j[3]) else 0
    cli_jobs += [(j[0], j[1], j[2], True, j[4]) for j in link_jobs]
    outs += louts
    rep.coverage["deep_package_links"] = len(link_jobs)
    if len([j for j in link_jobs if j[0].startswith("cli-deep-link#")]) < (len(DEEP_LONG) + len(DEEP_NEST)) * 2:
        raise ToolError("vacuity: most deep packages were not built, so link never saw them")
    for j, r in zip(cli_jobs, outs):
        classes[j[0].split("#")[0] + ":" + r["verdict"]] += 1
        records.append(cli_record(j[0], j[1], r, need_output=j[3] and r["verdict"] == "ok"))
        by_id[j[0]] = ({"id": j[0], "args": j[2], "about": j[4]}, r)

    # ---- E malformed artifacts
    proj = c15.Project("chain", workdir("c04-artifacts"))
    for p in ("A", "B", "Main"):
        v, err, _ = proj.compile_pkg("build", p)
        if v != "ok":
            raise ToolError("artifacts: baseline build failed: " + err)
    art_n = 0
    for (p, which, consumer) in (("A", "interface", "checkB"), ("A", "interface", "buildB"), ("A", "core", "link"), ("B", "core", "link"), ("Main", "core", "link")):
        path = proj.path(p, which)
        orig = open(path).read()
        ms = malformations(orig, random.Random(sd + 5), 12 if quick else 150)
        for name, content in ms:
            open(path, "wb").write(content)
            if consumer == "link":
                args = ["link", "--input"] + [proj.path(q, "core") for q in ("A", "B", "Main")] + ["--output", f"{proj.root}/out/main.go"]
            else:
                args = ["check" if consumer == "checkB" else "build", "--package", "B", "--input", f"{proj.root}/src/B.gom", "--interface-path", f"{proj.root}/out",
                        "--output", f"{proj.root}/out/Bx"]
            r = cli_run(args)
            rid = f"artifact#{p}.{which}:{consumer}:{name}"
            classes["artifact:" + r["verdict"]] += 1
            records.append(cli_record(rid, consumer, r))
            by_id[rid] = ({"id": rid, "file": f"{p}.{which}", "malformation": name}, r)
            art_n += 1
        open(path, "w").write(orig)

    # ---- E2 link with every subset / order / duplication of the cores of a project whose packages share generic types
    groot = workdir("c04-linksets")
    os.makedirs(groot + "/src", exist_ok=True)
    gsrc = {
        "Lib": "package Lib\n\nenum Box[T] { Empty, Full(T) }\nstruct Pair[A, B] { a: A, b: B }\n"
               "fn wrap[T](x: T) -> Box[T] { Box::Full(x) }\nfn unbox[T](b: Box[T], d: T) -> T { match b { Box::Empty => d, Box::Full(v) => v } }\n"
               "fn pair[A, B](a: A, b: B) -> Pair[A, B] { Pair { a: a, b: b } }\nfn first[A, B](p: Pair[A, B]) -> A { p.a }\nfn lib_f(x: int32) -> int32 { x + 1 }\n",
        "Mid": "package Mid\nimport Lib\n\nfn mid_f(x: int32) -> int32 { Lib::unbox(Lib::wrap(x), 0) + Lib::lib_f(x) }\n",
        "Main": "package Main\nimport Lib\nimport Mid\n\nfn main() {\n    let p = Lib::pair(Mid::mid_f(1), Lib::wrap(\"s\"));\n"
                "    let _ = string_println(int32_to_string(Lib::first(p)) + Lib::unbox(Lib::wrap(\"t\"), \"d\"));\n    ()\n}\n",
    }
    for n_, t_ in gsrc.items():
        open(f"{groot}/src/{n_}.gom", "w").write(t_)
    built = True
    for n_ in ("Lib", "Mid", "Main"):
        r = cli_run(["build", "--package", n_, "--input", f"{groot}/src/{n_}.gom", "--interface-path", f"{groot}/out", "--output", f"{groot}/out/{n_}"])
        classes["linkset-build:" + r["verdict"]] += 1
        records.append(cli_record(f"linkset-build#{n_}", "build", r))
        by_id[f"linkset-build#{n_}"] = ({"id": n_, "source": gsrc[n_]}, r)
        built = built and r["verdict"] == "ok"
    link_n = 0
    if built:
        import itertools
        core = lambda n_: f"{groot}/out/{n_}.core"
        sets = []
        for k in (1, 2, 3):
            sets += list(itertools.permutations(("Lib", "Mid", "Main"), k))
        sets += [("Main", "Main"), ("Lib", "Lib", "Mid", "Main"), ("Lib", "Mid", "Main", "Main"), ()]
        for st in sets:
            r = cli_run(["link", "--input"] + [core(x) for x in st] + ["--output", f"{groot}/out/linked_{link_n}.go"])
            rid = "linkset#" + "+".join(st)
            classes["linkset:" + r["verdict"]] += 1
            records.append(cli_record(rid, "link", r))
            by_id[rid] = ({"id": rid, "cores": list(st)}, r)
            link_n += 1
    rep.coverage["link_sets"] = link_n
    # ---- E3 stale histories: a diamond (Main -> {Base, Mid}, Mid -> Base) is built, Base's interface is edited in a way that breaks
    # what its dependents were compiled against (a variant removed / variants reordered / a field retyped / a signature changed /
    # a function removed), every subset of the packages is rebuilt in dependency order (a rebuild may be refused), then everything
    # is linked.  Whatever link does with cores built against another Base, it must answer - a stale core that gets past the hash
    # comparison reaches the back end with indices and names of a definition that no longer exists.
    sroot = workdir("c04-stale")
    base0 = ("package Base\n\nenum Shape { Circle(int32), Square(int32), Tri(int32) }\nstruct P { x: int32, y: int32 }\n"
             "fn area(s: Shape) -> int32 { match s { Shape::Circle(r) => r * r * 3, Shape::Square(a) => a * a, Shape::Tri(a) => a } }\n"
             "fn base_f(x: int32) -> int32 { x + 1 }\nfn extra(x: int32) -> int32 { x * 2 }\nfn mk(x: int32) -> P { P { x: x, y: 0 } }\n")
    stale_edits = {
        "variant-removed": base0.replace(", Tri(int32)", "").replace(", Shape::Tri(a) => a", ""),
        "variants-reordered": base0.replace("Circle(int32), Square(int32), Tri(int32)", "Tri(int32), Circle(int32), Square(int32)"),
        "field-retyped": base0.replace("struct P { x: int32, y: int32 }", "struct P { x: string, y: int32 }").replace("P { x: x, y: 0 }", "P { x: int32_to_string(x), y: 0 }"),
        "signature-changed": base0.replace("fn base_f(x: int32) -> int32 { x + 1 }", "fn base_f(x: int32, k: int32) -> int32 { x + k }"),
        "function-removed": base0.replace("fn extra(x: int32) -> int32 { x * 2 }\n", ""),
    }
    ssrc = {"Base": base0,
            "Mid": "package Mid\nimport Base\n\nfn mid_f(x: int32) -> int32 { Base::area(Base::Shape::Tri(x)) + Base::base_f(x) + Base::extra(x) + Base::mk(x).x }\n"
                   "fn pick(s: Base::Shape) -> int32 { match s { Base::Shape::Circle(r) => r, Base::Shape::Square(a) => a + 1, Base::Shape::Tri(t) => t + 2 } }\n",
            "Main": "package Main\nimport Base\nimport Mid\n\nfn main() {\n    let _ = string_println(int32_to_string(Mid::mid_f(2) + Mid::pick(Base::Shape::Square(3)) + Base::base_f(1)));\n    ()\n}\n"}
    stale_n = 0
    import itertools
    for ename, etext in stale_edits.items():
        for k in range(4):
            for sub in itertools.combinations(("Base", "Mid", "Main"), k):
                tag = f"{ename}:rebuilt={'+'.join(sub) or 'none'}"
                pr = f"{sroot}/{ename}-{'-'.join(sub) or 'none'}"
                os.makedirs(pr + "/src", exist_ok=True)
                bld = lambda n_: cli_run(["build", "--package", n_, "--input", f"{pr}/src/{n_}.gom", "--interface-path", f"{pr}/out", "--output", f"{pr}/out/{n_}"])
                ok0 = True
                for n_ in ("Base", "Mid", "Main"):
                    open(f"{pr}/src/{n_}.gom", "w").write(ssrc[n_])
                    ok0 = ok0 and bld(n_)["verdict"] == "ok"
                if not ok0:
                    raise ToolError("stale-history family: the initial build of the diamond failed")
                open(f"{pr}/src/Base.gom", "w").write(etext)
                for n_ in sub:
                    r = bld(n_)
                    rid = f"stale-build#{tag}:{n_}"
                    classes["stale-build:" + r["verdict"]] += 1
                    records.append(cli_record(rid, "build", r))
                    by_id[rid] = ({"id": rid, "edit": ename, "rebuilt": list(sub), "source_of_Base": etext}, r)
                r = cli_run(["link", "--input"] + [f"{pr}/out/{n_}.core" for n_ in ("Base", "Mid", "Main")] + ["--output", f"{pr}/out/main.go"])
                rid = f"stale-link#{tag}"
                classes["stale-link:" + r["verdict"]] += 1
                records.append(cli_record(rid, "link", r))
                by_id[rid] = ({"id": rid, "edit": ename, "rebuilt": list(sub), "source_of_Base": etext}, r)
                stale_n += 1
    if classes["stale-link:rejected"] < 10 or classes["stale-link:ok"] < 3:
        raise ToolError(f"vacuity: stale-history family: {dict((k, v) for k, v in classes.items() if k.startswith('stale-'))}")
    rep.coverage["stale_histories"] = stale_n
    # ---- validate every outcome against the contract
    d = workdir("c04-trace")
    chunks = [records[i:i + 40000] for i in range(0, len(records), 40000)]
    problems = {}
    for k, ch in enumerate(chunks):
        f = f"{d}/runs{k}.ndjson"
        write_lines(f, ch)
        t = run_tlc("PipelineTrace", "PipelineTrace.cfg", env={"RUNS": f}, workers=1, xmx="8g", timeout=3000, xss="256m", name=f"c04-trace-{k}")
        if t.rc != 0:
            raise ToolError("PipelineTrace failed: " + (t.error or t.stdout[-1200:]))
        done = t.json_prints("RUNSDONE")
        if not done or done[0]["n"] != len(ch):
            raise ToolError("PipelineTrace did not read every run")
        for r in t.json_prints("RUN"):
            problems[r["id"]] = r["problems"]
        os.remove(f)
    for rid, probs in problems.items():
        q, r = by_id[rid]
        cls = rid.split("#")[0]
        for pr in probs:
            if pr.startswith("no-result"):
                where = r.get("at") or "?"
                # generated families whose run ids are stable names (shape:depth, form:use:value): the identity of a timeout carries the name
                named = rid.split("#")[1] if cls.startswith(("cli-nest", "cli-deep")) else (":".join(rid.split("#")[1].split(":")[:2]) if cls in ("infer", "cli-infer", "cli-infer-check") else "")
                src_ = rid if cls in ("fam", "artifact") or cls.startswith("cli-") else (cls + ":" + rid.split("#")[-1] if cls.startswith("web-") else cls)
                if cls == "web-fam":
                    # a family program that panics at the same site in process and behind the playground's glue is one defect: same identity
                    twin = by_id.get("fam#" + rid.split("#")[1])
                    if twin is not None and twin[1].get("verdict") == "panic" and twin[1].get("at") == r.get("at"):
                        src_ = "fam#" + rid.split("#")[1]
                if cls == "illtyped":
                    # a one-edit variant of a family program that itself panics at the same site shows that program's defect again, not a
                    # new one: same identity (a variant that panics where its base does not, or elsewhere, keeps the identity `illtyped`)
                    twin = by_id.get(mt_base[int(rid.split("#")[1])])
                    if twin is not None and twin[1].get("verdict") == "panic" and r.get("verdict") == "panic" and twin[1].get("at") == r.get("at"):
                        src_ = twin[0]["id"]
                ident = f"{pr.split(':')[1]}:{where}:{src_}" if r["verdict"] in ("panic", "signal", "abort") else f"timeout:{cls}:{named}".rstrip(":")
            else:
                ident = f"{pr}:{cls}" + (":" + rid.split("#")[-1] if cls.startswith("web-") else "")
            detail = {"run": rid, "verdict": r["verdict"], "message": (r.get("msg") or r.get("stderr") or "")[:400],
                      "diagnostics": [x["msg"] for x in r.get("diags", [])][:4], "input": (q.get("text") or json.dumps({k: v for k, v in q.items() if k != "text"}))[-2500:]}
            rep.violation(ident, detail, replay={"request": q})
    rep.coverage.update({"runs_validated_against_contract": len(records), "traces_validated_against_impl": len(records), "token_inputs": len(toks), "layouts": len(chosen), "layouts_in_model": len(layouts),
                         "cli_runs": len(cli_jobs) + art_n, "malformed_artifacts": art_n, "ill_typed_variants": len(mt), "family_programs": len(fam_reqs),
                         "outcomes_by_input_class": dict(classes), "time_limit_s": TIME_LIMIT_S, "slowest_over_20s": slow[:10],
                         "nesting_depths_cli": [300, 1000] if quick else [300, 1000, 3000]})
    rep.sample({"input": inputs.get("tokens#100"), "outcome": by_id["tokens#100"][1]["verdict"]})
    if len(records) < 20000:
        raise ToolError("vacuity: fewer than 20000 runs")
    rep.assumptions += [
        "a run longer than %d s counts as a hang (nested tuples / arrays of depth >= 100 are polynomially slow and are kept below that)" % TIME_LIMIT_S,
        "the inference-stress programs (< 20 lines each) have a bound of %d s" % INFER_LIMIT_S,
        "in-process runs execute on a 256 MiB stack; stack exhaustion is judged on the real binary (CLI runs)",
        "diagnostics carry no file name, so positions are checked against the text only for single-file inputs",
        "`run` succeeding up to the missing Go toolchain ('failed to execute go') is a success of the compiler",
    ]
