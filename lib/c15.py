"""C15 — linking never combines packages built against different interfaces.

1. TLC model-checks spec/Artifacts.tla exhaustively on small graphs (LinkSafe, StaleUnlinkable, ...).
2. TLC -simulate emits behaviours (histories) of the same spec; every history is replayed through the real
   `goml check|build|link` CLI built from /repo's working tree; each verdict and, after each step, the partition
   of all interface hashes into equal classes must equal the model's (model content <-> real hash is a bijection).
3. Single-field corruption sweep over the real JSON artifacts.
"""
import copy, hashlib, json, os, subprocess, shutil
from common import *
import projgen

GRAPHS = {
    "chain": {"A": [], "B": ["A"], "Main": ["B"]},
    "tri": {"A": [], "B": ["A"], "Main": ["A", "B"]},
    "fan": {"A": [], "B": [], "Main": ["A", "B"]},
    "diamond": {"A": [], "B": ["A"], "C": ["A"], "Main": ["B", "C"]},
}


def cli(args, timeout=60):
    r = subprocess.run([CLI] + args, stdout=subprocess.PIPE, stderr=subprocess.PIPE, text=True, timeout=timeout)
    panicked = "panicked at" in r.stderr
    return ("ok" if r.returncode == 0 else "fail"), r.stderr.strip()[:400], panicked


def iface_hash(unit):
    try:
        view = {k: unit[k] for k in ("format_version", "compiler_abi", "package", "exports", "hir_interface", "deps")}
    except KeyError:
        return unit.get("interface_hash", "")
    b = json.dumps(view, separators=(",", ":"), ensure_ascii=False).encode("utf-8")
    return hashlib.sha256(b).hexdigest()


def leaves(x, path=()):
    if isinstance(x, dict):
        for k, v in x.items():
            yield from leaves(v, path + (k,))
    elif isinstance(x, list):
        for i, v in enumerate(x):
            yield from leaves(v, path + (i,))
    else:
        yield path, x


def set_path(x, path, v):
    for k in path[:-1]:
        x = x[k]
    x[path[-1]] = v


def alter(v):
    if isinstance(v, bool):
        return not v
    if isinstance(v, int):
        return v + 1
    if isinstance(v, str):
        return v + "x"
    return None  # null / float: skipped


class Project:
    def __init__(self, graph, root):
        self.deps = GRAPHS[graph]
        self.root = root
        shutil.rmtree(root, ignore_errors=True)
        os.makedirs(root + "/src")
        os.makedirs(root + "/out")
        self.ie = {p: [] for p in self.deps}
        self.be = {p: [] for p in self.deps}
        for p in self.deps:
            self.write_src(p)

    def write_src(self, p):
        with open(f"{self.root}/src/{p}.gom", "w") as f:
            f.write(projgen.pkg_source(p, self.deps[p], self.ie[p], self.be[p]))

    def compile_pkg(self, mode, p):
        return cli([mode, "--package", p, "--input", f"{self.root}/src/{p}.gom", "--interface-path",
                    f"{self.root}/out", "--output", f"{self.root}/out/{p}"])

    def link(self, S):
        return cli(["link", "--input"] + [f"{self.root}/out/{q}.core" for q in sorted(S)] +
                   ["--output", f"{self.root}/out/main.go"])

    def path(self, p, which):
        return f"{self.root}/out/{p}.{which}"

    def real_hash(self, p, which):
        path = self.path(p, which)
        if not os.path.exists(path):
            return "none"
        try:
            j = json.load(open(path))
            return j["interface_hash"] if which == "interface" else j["interface"]["interface_hash"]
        except Exception:
            return "unreadable"


def corrupt_file(proj, p, which, kind, rnd):
    """Apply a corruption of the model's kind to the real file; returns a description (field path)."""
    path = proj.path(p, which)
    j = json.load(open(path))
    if kind == "tampered":
        if which == "interface":
            cands = [(pa, v) for pa, v in leaves(j) if alter(v) is not None]
        else:
            cands = [(pa, v) for pa, v in leaves(j) if alter(v) is not None and pa[0] not in ("core_ir", "sources")]
        pa, v = cands[rnd.randrange(len(cands))]
        set_path(j, pa, alter(v))
        desc = "tamper:" + ".".join(str(x) for x in pa[:3])
    else:
        if which == "interface":
            fld = rnd.choice(["format_version", "compiler_abi"])
            j[fld] = j[fld] + 1          # the next version, whatever the current one is
            j["interface_hash"] = iface_hash(j)
            desc = "otherversion:interface." + fld
        else:
            choice = rnd.choice(["top.format_version", "top.compiler_abi", "iface.format_version", "iface.compiler_abi"])
            where, fld = choice.split(".")
            if where == "top":
                j[fld] = j[fld] + 1
            else:
                j["interface"][fld] = j["interface"][fld] + 1
                j["interface"]["interface_hash"] = iface_hash(j["interface"])
            desc = "otherversion:core." + choice
    with open(path, "w") as f:
        json.dump(j, f, indent=2, ensure_ascii=False)
    return desc


def replay(hist, graph, root, rnd):
    """Returns (issues, steps_replayed, stats). issue = (identity, detail)."""
    proj = Project(graph, root)
    issues = []
    for p in topo(proj.deps):   # SimSpec starts from InitBuilt: every package built once, in dependency order
        v, err, _ = proj.compile_pkg("build", p)
        if v != "ok":
            raise ToolError(f"initial build of {p} failed: {err}")
    m2r, r2m = {}, {}
    cor = {}  # (p, which) -> desc of the applied corruption (until overwritten)
    stats = {"ok_links": 0, "stale_link_rejects": 0, "corrupt_rejects": 0, "steps": 0}
    for n, st in enumerate(hist):
        a, p, exp = st["a"], st["p"], st["expect"]
        stats["steps"] += 1
        got, err, pan = exp, "", False
        if a == "EditI":
            proj.ie[p].append(st["arg"]); proj.write_src(p)
        elif a == "EditB":
            proj.be[p].append(st["arg"]); proj.write_src(p)
        elif a in ("Check", "Build"):
            got, err, pan = proj.compile_pkg(a.lower(), p)
            if got == "ok":
                cor.pop((p, "interface"), None)
                if a == "Build":
                    cor.pop((p, "core"), None)
        elif a == "Link":
            got, err, pan = proj.link(st["arg"])
            if got == "ok":
                stats["ok_links"] += 1
            elif "expects interface_hash" in err:
                stats["stale_link_rejects"] += 1
        elif a == "Corrupt":
            which, kind = st["arg"]["which"], st["arg"]["kind"]
            cor[(p, which)] = corrupt_file(proj, p, which, kind, rnd)
        if pan:
            issues.append((f"panic:{a.lower()}", {"step": n, "action": st["a"], "stderr": err}))
            break
        if got != exp:
            active = sorted(set(cor.values()))
            if exp == "fail" and active:
                # a corrupted file was accepted; identity names the corruption and the consuming command
                ident = f"accepted-corrupt:{a.lower()}:" + "+".join(active)
            else:
                ident = f"verdict:{a.lower()}:expected-{exp}"
            issues.append((ident, {"step": n, "action": st, "got": got, "stderr": err, "active_corruptions": active}))
            break
        if exp == "fail" and cor and a in ("Check", "Build", "Link"):
            stats["corrupt_rejects"] += 1
        # hash partition: model content string <-> real interface_hash must be a bijection over the history
        for which, key in (("interface", "ifaces"), ("core", "cores")):
            for q in proj.deps:
                model = st[key][q]
                if model in ("tampered", "otherversion"):
                    continue
                real = proj.real_hash(q, which)
                if (model == "none") != (real == "none"):
                    issues.append((f"file-presence:{which}", {"step": n, "pkg": q, "model": model, "real": real}))
                    continue
                if model == "none":
                    continue
                if m2r.setdefault(model, real) != real:
                    issues.append(("hash:same-content-different-hash", {"step": n, "pkg": q, "which": which, "action": st["a"], "arg": st["arg"], "model": model}))
                if r2m.setdefault(real, model) != model:
                    # (the identity names the kind of the package's latest interface edit: a hash that does not move is a statement about that kind)
                    issues.append(("hash:different-content-same-hash" + (":after-edit=" + proj.ie[q][-1] if proj.ie[q] else ""), {"step": n, "pkg": q, "which": which, "action": st["a"], "arg": st["arg"], "model": model, "other": r2m[real]}))
        if issues:
            break
    return issues, stats


def topo(deps):
    out = []
    def visit(p):
        if p in out:
            return
        for d in sorted(deps[p]):
            visit(d)
        out.append(p)
    for p in sorted(deps):
        visit(p)
    return out


def score(hist):
    s = 0
    for i, st in enumerate(hist):
        if st["a"] == "Link":
            S = st["arg"]
            stale = st["expect"] == "fail" and "Main" in S and all(st["cores"][q].startswith("{") for q in S) and len(S) == len(st["cores"])
            s += 4 if st["expect"] == "ok" else (8 if stale else 0)
        if st["a"] in ("Build", "Check") and st["expect"] == "ok":
            s += 1
        if st["a"] == "Corrupt":
            s += 2
    return s


def sweep_corruptions(rep, root, limit, rnd):
    """Alter every (or `limit` sampled) leaf of A.interface / B.core / A.core of a built chain project; the
    consuming command (build B resp. link) must fail."""
    proj = Project("chain", root)
    for p in ("A", "B", "Main"):
        v, err, _ = proj.compile_pkg("build", p)
        if v != "ok":
            raise ToolError("sweep: baseline build failed: " + err)
    v, err, _ = proj.link(["A", "B", "Main"])
    if v != "ok":
        raise ToolError("sweep: baseline link failed: " + err)
    targets = []
    for (p, which) in (("A", "interface"), ("B", "core"), ("A", "core"), ("Main", "core")):
        orig = open(proj.path(p, which)).read()
        j = json.loads(orig)
        if which == "interface":
            # forging a consistent hash for an artifact of another version needs the compiler's hash function; when it
            # cannot be reproduced here (another algorithm) those artifacts are still offered, with the stale hash
            rep.coverage["interface_hash_reproducible_outside_the_compiler"] = iface_hash(j) == j["interface_hash"]
        ls = [(pa, v) for pa, v in leaves(j) if alter(v) is not None]
        targets.append((p, which, orig, j, ls))
    done = 0
    accepted = 0
    total = sum(len(t[4]) for t in targets)
    for (p, which, orig, j, ls) in targets:
        if limit and len(ls) > limit:
            # keep all leaves outside core_ir, sample inside
            keep = [x for x in ls if x[0][0] != "core_ir"]
            rest = [x for x in ls if x[0][0] == "core_ir"]
            rnd.shuffle(rest)
            ls = keep[:limit] + rest[:max(10, limit - len(keep))]
        for pa, v in ls:
            jj = copy.deepcopy(j)
            set_path(jj, pa, alter(v))
            with open(proj.path(p, which), "w") as f:
                json.dump(jj, f, indent=2, ensure_ascii=False)
            if which == "interface":
                got, err, pan = proj.compile_pkg("check", "B")
                cmdname = "check"
            else:
                got, err, pan = proj.link(["A", "B", "Main"])
                cmdname = "link"
            done += 1
            top = str(pa[0])
            if pan:
                rep.violation(f"panic:{cmdname}:tamper:{which}.{top}", {"path": list(pa), "stderr": err})
            elif got == "ok":
                accepted += 1
                rep.violation(f"accepted-tampered:{cmdname}:{which}.{top}", {"file": f"{p}.{which}", "path": list(pa), "old": v})
        with open(proj.path(p, which), "w") as f:
            f.write(orig)
    # ---- targeted alterations of the dependency table of a *stale* core (built against an interface its dependency no
    # longer exports): making the recorded hash agree with the new interface, or dropping the entry, must not make it linkable
    proj.ie["A"].append("addfn"); proj.write_src("A")
    v, err, _ = proj.compile_pkg("build", "A")
    if v != "ok":
        raise ToolError("sweep: rebuild of A failed: " + err)
    v, err, _ = proj.link(["A", "B", "Main"])
    if v != "fail":
        rep.violation("verdict:link:expected-fail:stale-after-rebuild", {"stderr": err})
    newA = json.load(open(proj.path("A", "core")))["interface"]["interface_hash"]
    origB = open(proj.path("B", "core")).read()
    forged = 0
    for name, edit in (("overwrite-with-current-hash", lambda j: j["deps"].__setitem__("A", newA)),
                       ("drop-entry", lambda j: j["deps"].pop("A")),
                       ("empty-table", lambda j: j["deps"].clear()),
                       ("overwrite-both-tables", lambda j: (j["deps"].__setitem__("A", newA), j["interface"]["deps"].__setitem__("A", newA)))):
        jj = json.loads(origB)
        edit(jj)
        with open(proj.path("B", "core"), "w") as f:
            json.dump(jj, f, indent=2, ensure_ascii=False)
        got, err, pan = proj.link(["A", "B", "Main"])
        forged += 1
        if pan:
            rep.violation(f"panic:link:stale-deps:{name}", {"stderr": err})
        elif got == "ok":
            rep.violation(f"accepted-tampered:link:stale-core-deps:{name}", {"file": "B.core", "edit": name})
    with open(proj.path("B", "core"), "w") as f:
        f.write(origB)
    # ---- artifacts of ANOTHER version, consistent in themselves (hash recomputed over the changed field): every version field of
    # A.interface (consumed by check / build of B) and of A.core - top level and embedded interface - (consumed by link), set to the
    # versions before and after the current one, to 0 and to a far one.  "Older" is as foreign as "newer".
    for q in ("A", "B", "Main"):
        proj.compile_pkg("build", q)
    v, err, _ = proj.link(["A", "B", "Main"])
    if v != "ok":
        raise ToolError("sweep: link of the rebuilt project failed: " + err)
    other = 0
    for (which, where, fld) in [("interface", "top", "format_version"), ("interface", "top", "compiler_abi"), ("core", "top", "format_version"), ("core", "top", "compiler_abi"),
                                ("core", "iface", "format_version"), ("core", "iface", "compiler_abi")]:
        orig = open(proj.path("A", which)).read()
        j0 = json.loads(orig)
        holder0 = j0 if where == "top" else j0["interface"]
        cur = holder0[fld]
        for val, vname in sorted({(cur + 1, "next"), (max(cur - 1, 0), "previous"), (0, "zero"), (cur + 1000, "far")} - {(cur, "previous"), (cur, "zero")}):
            if val == cur:
                continue
            jj = json.loads(orig)
            holder = jj if where == "top" else jj["interface"]
            holder[fld] = val
            if which == "interface" or where == "iface":
                holder["interface_hash"] = iface_hash(holder)
            with open(proj.path("A", which), "w") as f:
                json.dump(jj, f, indent=2, ensure_ascii=False)
            runs = [("check", lambda: proj.compile_pkg("check", "B")), ("build", lambda: proj.compile_pkg("build", "B"))] if which == "interface" else [("link", lambda: proj.link(["A", "B", "Main"]))]
            for cmdname, go_ in runs:
                got, err, pan = go_()
                other += 1
                tag = f"{'core.iface' if where == 'iface' else which}.{fld}:{vname}"
                if pan:
                    rep.violation(f"panic:{cmdname}:otherversion:{tag}", {"stderr": err})
                elif got == "ok":
                    rep.violation(f"accepted-corrupt:{cmdname}:otherversion:{tag}", {"file": f"A.{which}", "field": fld, "current": cur, "written": val})
        with open(proj.path("A", which), "w") as f:
            f.write(orig)
    # (restore what the consumers of the altered interface wrote)
    for q in ("A", "B", "Main"):
        proj.compile_pkg("build", q)
    return {"corruption_leaves_total": total, "corruption_leaves_tried": done, "corruptions_accepted": accepted, "stale_deps_forgeries": forged, "other_version_artifacts_offered": other}


def run(tier, rep):
    build_cli()
    rnd = rng(15)
    # ---- 1. exhaustive model checking
    mc_cfgs = ["Artifacts_chain.cfg"] if tier == "quick" else ["Artifacts_chain.cfg", "Artifacts_tri.cfg", "Artifacts_fan.cfg", "Artifacts_diamond.cfg"]
    states = trans = 0
    cover = {}
    for cfg in mc_cfgs:
        r = run_tlc("MCArtifacts", cfg, workers=8, xmx="8g", coverage=True, timeout=3000)
        if not tlc_ok(r, cfg):
            rep.violation(f"model:{cfg}:{r.violated}", {"trace": r.trace[-6:]})
        states += r.distinct
        trans += r.generated
        for k, v in r.coverage.items():
            cover[k] = cover.get(k, 0) + v
    for act in ("EditI", "Check", "Build", "Link", "Corrupt"):
        if cover.get(act, 0) == 0:
            raise ToolError(f"vacuity: action {act} never taken in Artifacts model checking")
    # ---- 2. behaviours -> real CLI
    plan = [("chain", 400, 60), ("tri", 300, 40)] if tier == "quick" else [("chain", 3000, 800), ("tri", 2000, 500), ("fan", 1000, 200), ("diamond", 2000, 500)]
    replayed = 0
    agg = {"ok_links": 0, "stale_link_rejects": 0, "corrupt_rejects": 0, "steps": 0}
    nontrivial = 0
    for gi, (graph, nsim, keep) in enumerate(plan):
        r = run_tlc("MCArtifacts", f"Artifacts_sim_{graph}.cfg", workers=1, simulate=f"num={nsim}", depth=20,
                    timeout=1800, seed_=seed() * 7 + gi + 1, xmx="4g", env={"KOFF": seed() + gi})
        if r.rc != 0 and r.violated:
            rep.violation(f"model:sim:{graph}:{r.violated}", {"trace": r.trace[-4:]})
        elif r.rc != 0:
            raise ToolError("simulation failed: " + (r.error or r.stdout[-2000:]))
        hists = r.json_prints("HIST")
        if len(hists) < keep:
            raise ToolError(f"simulation produced only {len(hists)} histories for {graph}")
        hists.sort(key=score, reverse=True)
        chosen = hists[:keep * 3 // 4]
        rest = hists[keep * 3 // 4:]
        rnd.shuffle(rest)
        chosen += rest[:keep - len(chosen)]
        for hi, h in enumerate(chosen):
            root = os.path.join(WORK, "c15", f"{graph}")
            issues, st = replay(h, graph, root, rnd)
            replayed += 1
            for k in agg:
                agg[k] += st[k]
            if st["ok_links"] and (st["stale_link_rejects"] or st["corrupt_rejects"]):
                nontrivial += 1
            if hi < 2 and gi == 0:
                rep.sample({"graph": graph, "history": [{k: s[k] for k in ("a", "p", "arg", "expect")} for s in h]})
            for ident, detail in issues:
                rep.violation(ident, detail, replay={"graph": graph, "history": h})
    # ---- 2b. the stale-subset sweep (MCArtifacts.tla, SweepSpec): exhaustively, one interface edited and every subset of the
    # packages rebuilt before everything is linked; all behaviours replayed
    sweep_replayed = 0
    for graph in ("tri", "diamond") if tier == "quick" else ("chain", "tri", "fan", "diamond"):
        # (the smallest graph with every kind of interface edit - additions, removals, changed signatures, reordered same-typed
        # fields and reordered variants -, the others with one kind per package)
        allk = graph == ("tri" if tier == "quick" else graph)
        r = run_tlc("MCArtifacts", f"Artifacts_sweep_{graph}.cfg", workers=1, timeout=900, xmx="4g", env={"KOFF": seed(), "SWEEPKINDS": "all" if allk else "one"}, name=f"artifacts-sweep-{graph}")
        if r.rc != 0 and r.violated:
            rep.violation(f"model:sweep:{graph}:{r.violated}", {"trace": r.trace[-4:]})
            continue
        if r.rc != 0:
            raise ToolError("sweep enumeration failed: " + (r.error or r.stdout[-2000:]))
        hists = r.json_prints("HIST")
        n = len(GRAPHS[graph])
        if len(hists) != n * 2 ** n * (len(projgen.IFACE_KINDS) if allk else 1):
            raise ToolError(f"sweep of {graph}: {len(hists)} behaviours, expected {n * 2 ** n * (len(projgen.IFACE_KINDS) if allk else 1)}")
        for h in hists:
            issues, st = replay(h, graph, os.path.join(WORK, "c15", f"sweep-{graph}"), rnd)
            sweep_replayed += 1
            for k in agg:
                agg[k] += st[k]
            for ident, detail in issues:
                rep.violation("stale-subset:" + ident, detail, replay={"graph": graph, "history": h})
    replayed += sweep_replayed
    rep.coverage["stale_subset_sweep_histories"] = sweep_replayed
    # ---- 3. corruption sweep
    sw = sweep_corruptions(rep, os.path.join(WORK, "c15", "sweep"), 60 if tier == "quick" else 0, rnd)
    rep.coverage.update({
        "states": states, "transitions": trans, "traces_validated_against_impl": replayed,
        "model_configs": mc_cfgs, "action_coverage": cover,
        "replay": agg, "histories_with_ok_link_and_rejection": nontrivial,
        "exhaustive": True,
    })
    rep.coverage.update(sw)
    rep.assumptions += [
        "interface content versions are injective (each generated interface edit produces a never-seen interface)",
        "TLC explores the model exhaustively only for the listed small graphs with MaxI=1; histories are sampled by simulation",
        "a corruption that recomputes the hash of a changed payload is indistinguishable from a legitimate interface and is not required to be rejected",
    ]
    if agg["ok_links"] == 0 or agg["stale_link_rejects"] == 0:
        raise ToolError("vacuity: replayed histories contain no successful link or no stale-link rejection")
