"""Programs around defects of the unchanged tree that were first noticed outside the checks (by the sub-agents that seed breaking
changes, while they probed the compiler) and then repaired in /repo.  Each group generalises the failing input into the class it
belongs to, so that the owning checks find the defect on the pre-fix tree and report it again if it returns:

  generic-instance-in-container   a generic enum / struct instance under Vec, in a field of a NON-generic struct / enum, nested
                                  (panic in the Go backend: the type application survived monomorphisation)         fix 86545c3
  unsuffixed-int-pattern          `0 =>` on a scrutinee of every integer type (panic in match compilation)         fix 24715b9
  operator-operands               builtin - + * / < on bool, unit, tuple, struct operands (accepted; invalid Go)    fix de20e72
  type-switch-binding             an enum matched without looking at the payload and used again afterwards
                                  (`switch x := x.(type)` with x unused: Go rejects it)                            fix 9ebb9f7
  helper-types-of-definitions     a struct / enum no function mentions, with tuple / array / Ref / Vec fields
                                  (undeclared helper type in the emitted Go)                                       fix 43b13aa
  type-parameter-applied          `T[int32]` with T a type parameter, used as a receiver / field base / argument
                                  (panic in the inherent-method lookup)                                            fix b540838
(a user type named `main` - fix 9b08b00 - is part of C19's renaming family.)"""
import zlib
from gast import *

INT_TYPES = [("int8", "i8", "100"), ("int16", "i16", "30000"), ("int32", "i32", "2000000000"), ("int64", "i64", "9000000000"),
             ("uint8", "u8", "255"), ("uint16", "u16", "65535"), ("uint32", "u32", "4000000000"), ("uint64", "u64", "18000000000000000000")]

MAINH = "fn main() -> unit {\n"
MAINT = "    ()\n}\n"


def programs(tier):
    out = []

    def add(group, name, text, lines, expect="accept", extra=None):
        out.append({"prog": TextProgram(("found_" + group + "_" + name).replace("-", "_").replace(":", "_"), text, lines), "family": "found:" + group,
                    "ident": f"found:{group}:{name}", "expect": expect, **({"extra_files": extra} if extra else {})})

    # ---- generic instances inside containers and non-generic definitions
    opt = "enum Opt[T] { Non, Som(T) }\nstruct Bx[T] { v: T }\n"
    show = "fn show(o: Opt[int32]) -> string { match o { Opt::Non => \"non\", Opt::Som(k) => int32_to_string(k) } }\n"
    add("generic-instance-in-container", "vec-of-enum-instance", opt + show + MAINH +
        "    let v: Vec[Opt[int32]] = vec_new();\n    let v2 = vec_push(vec_push(v, Opt::Som(1)), Opt::Non);\n"
        "    let _ = string_println(int32_to_string(vec_len(v2)) + show(vec_get(v2, 0)) + show(vec_get(v2, 1)));\n" + MAINT, ["21non"])
    add("generic-instance-in-container", "vec-of-struct-instance", opt + MAINH +
        "    let v: Vec[Bx[string]] = vec_new();\n    let v2 = vec_push(v, Bx { v: \"a\" });\n    let b: Bx[string] = vec_get(v2, 0);\n"
        "    let _ = string_println(b.v);\n" + MAINT, ["a"])
    add("generic-instance-in-container", "vec-of-vec-of-instance", opt + show + MAINH +
        "    let inner: Vec[Opt[int32]] = vec_push(vec_new(), Opt::Som(5));\n    let outer: Vec[Vec[Opt[int32]]] = vec_push(vec_new(), inner);\n"
        "    let _ = string_println(show(vec_get(vec_get(outer, 0), 0)));\n" + MAINT, ["5"])
    add("generic-instance-in-container", "field-of-non-generic-struct", opt + show + "struct Holder { o: Opt[int32], n: int32 }\n" + MAINH +
        "    let h = Holder { o: Opt::Som(3), n: 1 };\n    let _ = string_println(show(h.o) + int32_to_string(h.n));\n" + MAINT, ["31"])
    add("generic-instance-in-container", "payload-of-non-generic-enum", opt + show + "enum Wrap { W(Opt[int32]), Z }\n" + MAINH +
        "    let w = Wrap::W(Opt::Som(4));\n    let _ = string_println(match w { Wrap::W(o) => show(o), Wrap::Z => \"z\" });\n" + MAINT, ["4"])
    add("generic-instance-in-container", "struct-instance-in-field-of-non-generic-struct", opt + "struct Outer { b: Bx[int32], t: (Bx[bool], int32) }\n" + MAINH +
        "    let o = Outer { b: Bx { v: 6 }, t: (Bx { v: true }, 2) };\n    let ib: Bx[int32] = o.b;\n    let t: (Bx[bool], int32) = o.t;\n    let bb: Bx[bool] = t.0;\n"
        "    let _ = string_println(int32_to_string(ib.v) + bool_to_string(bb.v));\n" + MAINT, ["6true"])
    add("generic-instance-in-container", "vec-of-instance-in-field", opt + show + "struct Bag { items: Vec[Opt[int32]] }\n" + MAINH +
        "    let b = Bag { items: vec_push(vec_new(), Opt::Som(8)) };\n    let _ = string_println(show(vec_get(b.items, 0)));\n" + MAINT, ["8"])
    # ---- unsuffixed integer patterns on scrutinees of every integer type
    for ty, suf, big in INT_TYPES:
        add("unsuffixed-int-pattern", ty, f"fn f(x: {ty}) -> string {{ match x {{ 0 => \"zero\", {big} => \"big\", _ => \"other\" }} }}\n" + MAINH +
            f"    let _ = string_println(f(0{suf}) + f({big}{suf}) + f(1{suf}));\n" + MAINT, ["zerobigother"])
        add("unsuffixed-int-pattern", ty + ":in-tuple", f"fn f(x: ({ty}, bool)) -> string {{ match x {{ (0, true) => \"a\", ({big}, _) => \"b\", _ => \"c\" }} }}\n" + MAINH +
            f"    let _ = string_println(f((0{suf}, true)) + f(({big}{suf}, false)) + f((0{suf}, false)));\n" + MAINT, ["abc"])
    # ---- the builtin operators on operands they are not defined for: rejected; on the ones they are defined for: accepted
    decl = "struct S { a: int32 }\nenum E { A, B }\n"
    bad = {"neg-bool": "let r = -true;", "neg-string": "let r = -\"a\";", "neg-unit": "let r = -();", "add-bool": "let r = true + false;",
           "sub-string": "let r = \"a\" - \"b\";", "mul-tuple": "let r = (1, 2) * (3, 4);", "div-struct": "let r = S { a: 1 } / S { a: 2 };",
           "add-enum": "let r = E::A + E::B;", "less-bool": "let r = true < false;", "less-tuple": "let r = (1, 2) < (3, 4);", "greater-struct": "let r = S { a: 1 } > S { a: 2 };",
           "lesseq-unit": "let r = () <= ();", "add-array": "let r = [1, 2] + [3, 4];", "neg-struct": "let r = -S { a: 1 };"}
    for n, stmt in bad.items():
        add("operator-operands", n, decl + MAINH + "    " + stmt + "\n" + MAINT, [], expect="reject")
    good = {"add-string": ("let r = \"a\" + \"b\"; let _ = string_println(r);", ["ab"]),
            "less-string": ("let r = \"a\" < \"b\"; let _ = string_println(bool_to_string(r));", ["true"]),
            "neg-float": ("let r = -1.5; let _ = string_println(float64_to_string(r + 2.0));", ["0.5"]),
            "arith-uint8": ("let r = 200u8 / 3u8 - 1u8; let _ = string_println(uint8_to_string(r));", ["65"])}
    for n, (stmt, lines) in good.items():
        add("operator-operands", n + ":defined", decl + MAINH + "    " + stmt + "\n" + MAINT, lines)
    # ---- a value matched without its payload being used, and used again afterwards
    en = "enum E { A, B(int32), C(int32, bool) }\n"
    add("type-switch-binding", "payload-ignored-then-used-again", en +
        "fn f(x: E) -> int32 {\n    let n = match x { E::A => 1, E::B(_) => 2, E::C(_, _) => 3 };\n    let m = match x { E::A => 10, E::B(k) => k, E::C(k, _) => k };\n    n + m\n}\n" + MAINH +
        "    let _ = string_println(int32_to_string(f(E::B(5)) + f(E::A) + f(E::C(7, true))));\n" + MAINT, ["28"])
    add("type-switch-binding", "payload-ignored-then-passed-on", en + "fn tag(x: E) -> int32 { match x { E::A => 0, _ => 1 } }\n"
        "fn f(x: E) -> int32 {\n    let n = match x { E::A => 1, E::B(_) => 2, E::C(_, _) => 3 };\n    n + tag(x)\n}\n" + MAINH +
        "    let _ = string_println(int32_to_string(f(E::B(5)) + f(E::A)));\n" + MAINT, ["4"])
    add("type-switch-binding", "payload-ignored-in-loop", en +
        "fn f(x: E) -> int32 {\n    let i = ref(0);\n    let acc = ref(0);\n    while ref_get(i) < 2 {\n        let _ = ref_set(i, ref_get(i) + 1);\n"
        "        let _ = match x { E::A => ref_set(acc, ref_get(acc) + 1), E::B(_) => ref_set(acc, ref_get(acc) + 2), E::C(_, _) => () };\n        ()\n    };\n"
        "    match x { E::B(k) => ref_get(acc) + k, _ => ref_get(acc) }\n}\n" + MAINH +
        "    let _ = string_println(int32_to_string(f(E::B(5))));\n" + MAINT, ["9"])
    # ---- definitions nobody uses, whose fields need helper types
    for n, fty in (("tuple", "(int32, bool)"), ("nested-tuple", "((int32, bool), string)"), ("array", "[int32; 3]"), ("ref", "Ref[int32]"), ("vec-of-tuple", "Vec[(int32, int32)]"),
                   ("ref-of-tuple", "Ref[(bool, bool)]"), ("array-of-tuple", "[(int32, string); 2]")):
        add("helper-types-of-definitions", "unused-struct:" + n, f"struct Unused {{ t: {fty}, k: int32 }}\n" + MAINH + "    let _ = string_println(\"hi\");\n" + MAINT, ["hi"])
        add("helper-types-of-definitions", "unused-enum:" + n, f"enum Unused {{ K({fty}), Z }}\n" + MAINH + "    let _ = string_println(\"hi\");\n" + MAINT, ["hi"])
    # ---- (OPEN finding, not fixed) a closure parameter without annotation whose only use is an array builtin gets the builtin's
    # wildcard-length array type, which nothing resolves to the length of the argument
    add("unannotated-array-parameter", "local-closure", MAINH + "    let g = |p| array_get(p, 0);\n    let r = g([1, 2]);\n    let _ = string_println(int32_to_string(r));\n" + MAINT, ["1"])
    add("unannotated-array-parameter", "closure-argument-of-generic", "fn apply[T, U](f: (T) -> U, v: T) -> U { f(v) }\n" + MAINH +
        "    let r = apply(|p| array_get(p, 0), [1, 2]);\n    let _ = string_println(int32_to_string(r));\n" + MAINT, ["1"])
    add("unannotated-array-parameter", "annotated:control", MAINH + "    let g = |p: [int32; 2]| array_get(p, 0);\n    let r = g([1, 2]);\n    let _ = string_println(int32_to_string(r));\n" + MAINT, ["1"])
    # ---- a type parameter applied to arguments is not a type: rejected with a diagnostic wherever it is written and however
    # the value is used (fix b540838: a method call on such a value panicked in the inherent-method lookup)
    uses = {"method-call": "x.foo()", "field-read": "x.v", "ufcs-call": "T::foo(x)", "passed-on": "g(x)", "returned": "x", "unused": "()"}
    tys = {"param": "T[int32]", "nested-in-vec": "Vec[T[int32]]", "nested-application": "T[T[int32]]", "two-arguments": "T[int32, bool]", "under-ref": "Ref[T[int32]]"}
    for un, use in uses.items():
        for tn, ty in tys.items():
            if tier == "quick" and (zlib.crc32((un + tn).encode()) % 3) and not (un == "method-call" or tn == "param"):
                continue
            ret = ty if un == "returned" else "unit"
            body = use if un in ("returned", "unused") else f"let _ = {use}; ()"
            add("type-parameter-applied", f"{un}:{tn}", f"fn g[U](u: U) -> unit {{ () }}\nfn f[T](x: {ty}) -> {ret} {{ {body} }}\n" + MAINH + MAINT, [], expect="reject")
    # ---- a bare constructor pattern whose enum is declared in ANOTHER FILE of the same package (lowering knows the constructors of
    # one file only and made the pattern a variable that matches everything: the first such arm silently swallowed the others)
    opt2 = "enum Opt { Non, Som(int32) }\nenum Col { Red, Green, Blue }\n"
    shows = ("fn f(o: Opt) -> int32 { match o { Non => 1, Som(v) => v } }\n"
             "fn name(c: Col) -> string { match c { Red => \"r\", Green => \"g\", Blue => \"b\" } }\n"
             "fn both(o: Opt, c: Col) -> string { match (o, c) { (Non, Green) => \"ng\", (Som(x), Blue) => \"sb\" + int32_to_string(x), (Non, _) => \"n\", (_, Red) => \"r\", _ => \"other\" } }\n"
             "fn second(o: Opt) -> int32 { match o { Som(v) => v + 10, Non => 7 } }\n")
    body = ("    let _ = string_println(int32_to_string(f(Som(5))) + int32_to_string(f(Non)) + name(Red) + name(Green) + name(Blue));\n"
            "    let _ = string_println(both(Non, Green) + both(Som(2), Blue) + both(Non, Blue) + both(Som(1), Red) + both(Som(1), Green));\n"
            "    let _ = string_println(int32_to_string(second(Som(1))) + int32_to_string(second(Non)));\n")
    want = ["51rgb", "ngsb2nrother", "117"]
    add("constructor-pattern-across-files", "enum-in-sibling-file", shows + MAINH + body + MAINT, want, extra={"types.gom": opt2})
    add("constructor-pattern-across-files", "matches-in-sibling-file", opt2 + MAINH + body + MAINT, want, extra={"helpers.gom": shows})
    add("constructor-pattern-across-files", "enum-sorts-after-main", shows + MAINH + body + MAINT, want, extra={"zz_types.gom": opt2})
    add("constructor-pattern-across-files", "one-file-control", opt2 + shows + MAINH + body + MAINT, want)
    add("constructor-pattern-across-files", "let-and-closure-parameter-named-like-nothing", "fn g(o: Opt) -> int32 { let k = |Nonx: int32| Nonx + 1; match o { Non => k(1), Som(Nonx) => k(Nonx) } }\n" + MAINH +
        "    let _ = string_println(int32_to_string(g(Non)) + int32_to_string(g(Som(4))));\n" + MAINT, ["25"], extra={"types.gom": opt2})
    # ---- two parameters of one function / method with the same name (both were mapped to one local: `func f(x__1 int32, x__1 int32)`)
    call = MAINH + "    let _ = string_println(int32_to_string(f(1, 2)));\n" + MAINT
    add("duplicate-parameter", "function", "fn f(x: int32, x: int32) -> int32 { x }\n" + call, [], expect="reject")
    add("duplicate-parameter", "function:first-and-third", "fn f3(x: int32, y: int32, x: int32) -> int32 { x + y }\n" + MAINH + "    let _ = string_println(int32_to_string(f3(1, 2, 3)));\n" + MAINT, [], expect="reject")
    add("duplicate-parameter", "function:different-types", "fn f(x: int32, x: string) -> string { x }\n" + MAINH + "    let _ = string_println(f(1, \"s\"));\n" + MAINT, [], expect="reject")
    add("duplicate-parameter", "method", "struct S { a: int32 }\nimpl S { fn m(self: S, k: int32, k: int32) -> int32 { k } }\n" + MAINH + "    let _ = string_println(int32_to_string(S { a: 1 }.m(5, 6)));\n" + MAINT, [], expect="reject")
    add("duplicate-parameter", "generic-function", "fn g[T](x: T, x: T) -> T { x }\n" + MAINH + "    let _ = string_println(int32_to_string(g(1, 2)));\n" + MAINT, [], expect="reject")
    add("duplicate-parameter", "distinct-names:control", "fn f(x: int32, y: int32) -> int32 { x - y }\n" + call, ["-1"])
    # ---- the name the editor queries insert after a `.` (`completion_placeholder`) written in a program: not a field of anything
    # (it type-checked as unit on every struct and match compilation panicked on the missing field)
    ph = "struct P { x: int32 }\nstruct G[T] { v: T }\n"
    add("placeholder-field", "read", ph + MAINH + "    let p = P { x: 1 };\n    let u = p.completion_placeholder;\n    let _ = string_println(int32_to_string(p.x));\n" + MAINT, [], expect="reject")
    add("placeholder-field", "read-on-generic-struct", ph + MAINH + "    let g = G { v: 1 };\n    let u = g.completion_placeholder;\n" + MAINT, [], expect="reject")
    add("placeholder-field", "read-in-closure", ph + MAINH + "    let f = |p: P| p.completion_placeholder;\n    let _ = f(P { x: 2 });\n" + MAINT, [], expect="reject")
    add("placeholder-field", "declared-field-of-that-name:control", "struct Q { completion_placeholder: int32 }\n" + MAINH + "    let q = Q { completion_placeholder: 4 };\n    let _ = string_println(int32_to_string(q.completion_placeholder));\n" + MAINT, ["4"])
    # ---- type annotations INSIDE function bodies (closure parameters, lets) name types that must exist, with the right number of
    # arguments - as in signatures (they were converted without being validated: an unknown name reached the Go text as a type)
    hd = "struct Box[T] { v: T }\ntrait Show { fn show(Self) -> string; }\n"
    bad_ann = {"closure-parameter:unknown-type": "let f = |x: Nope| 1;", "closure-parameter:too-many-type-arguments": "let f = |b: Box[int32, string]| 1;",
               "closure-parameter:too-few-type-arguments": "let f = |b: Box| 1;", "closure-parameter:unknown-type-nested": "let f = |b: Vec[(int32, Nope)]| 1;",
               "closure-parameter:unknown-trait-in-dyn": "let f = |d: dyn Nope| 1;", "let:unknown-type-under-vec": "let v: Vec[Nope] = vec_new();",
               "let:unknown-type-under-ref-of-closure-result": "let f = |x: int32| x; let r: Ref[Nope] = ref(f(1));", "let:too-many-type-arguments": "let b: Box[int32, string] = Box { v: 1 };",
               "checked-closure-parameter:unknown-type": "let f: (Nope) -> int32 = |x: Nope| 1;"}
    for n, stmt in bad_ann.items():
        add("annotation-in-body", n, hd + MAINH + "    " + stmt + "\n" + MAINT, [], expect="reject")
    add("annotation-in-body", "known-types:control", hd + MAINH + "    let f = |b: Box[int32], v: Vec[(int32, string)]| b.v + vec_len(v);\n    let w: Vec[(int32, string)] = vec_new();\n"
        "    let _ = string_println(int32_to_string(f(Box { v: 4 }, w)));\n" + MAINT, ["4"])
    # ---- `==` / `!=` on operands whose Go representation cannot be compared (vectors: slices; closures: environment structs of two
    # different types), and builtin operators on a bare type parameter instantiated at a type that has none (OPEN findings)
    eqs = {"vectors": ("let a: Vec[int32] = vec_push(vec_new(), 1);\n    let b: Vec[int32] = vec_push(vec_new(), 1);\n    let _ = string_println(bool_to_string(a == b));", None),
           "integers:control": ("let _ = string_println(bool_to_string(1 == 1) + bool_to_string(2 != 2));", ["truefalse"]),
           "strings:control": ("let _ = string_println(bool_to_string(\"a\" == \"a\"));", ["true"]),
           "structs-of-integers:control": ("let _ = string_println(bool_to_string(PI { a: 1, b: 2 } == PI { a: 1, b: 2 }) + bool_to_string(PI { a: 1, b: 2 } == PI { a: 1, b: 3 }));", ["truefalse"])}
    for n, (stmt, lines) in eqs.items():
        add("equality-operands", n, "struct HV { v: Vec[int32] }\nstruct PI { a: int32, b: int32 }\n" + MAINH + "    " + stmt + "\n" + MAINT, lines or ["?"])
    # ---- a refutable `let` (the pattern does not cover the type) followed by a value of another type than unit: the failure branch
    # calls the `missing` helper, whose result is `struct{}` at every type (the OPEN finding C02-missing-helper-returns-unit seen
    # from a second construct)
    ropt = "enum Opt { Som(int32), Non }\n"
    for rty, body, show in (("int32", "v", "int32_to_string(first(Opt::Som(4)))"), ("string", "int32_to_string(v)", "first(Opt::Som(4))"), ("bool", "v > 3", "bool_to_string(first(Opt::Som(4)))")):
        add("refutable-let", f"{rty}-continuation", ropt + f"fn first(o: Opt) -> {rty} {{\n    let Opt::Som(v) = o;\n    {body}\n}}\n" + MAINH +
            f"    let _ = string_println({show});\n" + MAINT, ["4" if rty != "bool" else "true"])
    add("refutable-let", "unit-continuation:control", ropt + "fn first(o: Opt) -> unit {\n    let Opt::Som(v) = o;\n    let _ = string_println(int32_to_string(v));\n    ()\n}\n" + MAINH +
        "    let _ = first(Opt::Som(4));\n" + MAINT, ["4"])
    # ---- an `extern type` of a Go package is emitted as `type T = pkg.T`: the import of pkg has to stay while the alias does, also
    # when no function of that package is called
    ext = "extern type Time\n\nextern \"go\" \"time\" \"Now\" now() -> Time\n\n"
    add("extern-type-import", "function-declared-never-called", ext + MAINH + "    let _ = string_println(\"hi\");\n" + MAINT, ["hi"])
    add("extern-type-import", "type-in-an-uncalled-signature", ext + "fn keep(t: Time) -> int32 { 1 }\n" + MAINH + "    let _ = string_println(\"hi\");\n" + MAINT, ["hi"])
    add("extern-type-import", "type-in-a-called-signature", ext + "fn keep(t: Vec[Time]) -> int32 { vec_len(t) }\n" + MAINH + "    let v: Vec[Time] = vec_new();\n    let _ = string_println(int32_to_string(keep(v)));\n" + MAINT, ["0"])
    add("extern-type-import", "two-packages-one-used", ext + "extern type Builder\nextern \"go\" \"strings\" \"ToUpper\" upper(s: string) -> string\nextern \"go\" \"strings\" \"NewReader\" rd(s: string) -> Builder\n" + MAINH + "    let _ = string_println(\"hi\");\n" + MAINT, ["hi"])
    tp = "struct V2 { x: int32, y: int32 }\nfn dbl[T](a: T) -> T { a + a }\nfn lt[T](a: T, b: T) -> bool { a < b }\n"
    add("operator-on-type-parameter", "instantiated-at-a-struct", tp + MAINH + "    let v = dbl(V2 { x: 1, y: 2 });\n    let _ = string_println(int32_to_string(v.x));\n" + MAINT, ["?"])
    add("operator-on-type-parameter", "instantiated-at-numbers-and-strings:control", tp + MAINH +
        "    let _ = string_println(int32_to_string(dbl(21)) + dbl(\"ab\") + bool_to_string(lt(1, 2)) + bool_to_string(lt(\"b\", \"a\")));\n" + MAINT, ["42ababtruefalse"])
    return out
