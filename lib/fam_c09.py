"""C09 family: every n-ary construct with observable effects (ticks / failing operations) in every operand position."""
from gast import *

def tick(i, v):       # prints "t<i>" and returns v (int32)
    return Call("tick", Int(i), v)
def tickb(i, v):
    return Call("tickb", Int(i), v)
def ticks(i, v):
    return Call("ticks", Int(i), v)

def prelude(p):
    p.fn("tick", [("i", INT32), ("v", INT32)], INT32, Block([println(Bin("+", Str("t"), show_int(Var("i"))))], Var("v")))
    p.fn("tickb", [("i", INT32), ("v", BOOL)], BOOL, Block([println(Bin("+", Str("t"), show_int(Var("i"))))], Var("v")))
    p.fn("ticks", [("i", INT32), ("v", STRING)], STRING, Block([println(Bin("+", Str("t"), show_int(Var("i"))))], Var("v")))
    p.fn("zero", [], INT32, Int(0))
    p.fn("inc1", [("x", INT32)], INT32, Bin("+", Var("x"), Int(1)))
    p.fn("dbl1", [("x", INT32)], INT32, Bin("*", Var("x"), Int(2)))
    p.fn("pick", [("i", INT32), ("b", BOOL)], TFn([INT32], INT32), Block([println(Bin("+", Str("pick"), show_int(Var("i"))))], If(Var("b"), FnRef("inc1"), FnRef("dbl1"))))
    # user functions whose names look like runtime helpers / Go builtins, with an effect
    p.fn("audit_to_string", [("x", INT32)], STRING, Block([println(Bin("+", Str("audit"), show_int(Var("x"))))], Str("a")))
    p.fn("my_len", [("x", INT32)], INT32, Block([println(Str("my_len"))], Var("x")))
    p.fn("add3", [("a", INT32), ("b", INT32), ("c", INT32)], INT32, Bin("+", Bin("+", Var("a"), Var("b")), Var("c")))
    p.struct("S3", [("a", INT32), ("b", INT32), ("c", INT32)])
    p.enum("E2", [("K0", []), ("K2", [INT32, INT32])])
    p.impl(None, TAdt("S3"), [("sum3", [("self", TAdt("S3")), ("x", INT32), ("y", INT32)], INT32,
                                 Bin("+", Bin("+", Field(Var("self"), "a"), Var("x")), Var("y")))])

def mk(name, body_stmts, result=None):
    """program printing ticks then the final int result"""
    p = Program(name)
    prelude(p)
    stmts = list(body_stmts)
    if result is not None:
        stmts.append(println(show_int(result)))
    p.fn("main", [], UNIT, Block(stmts, Unit))
    return p

def fail_div(i):      # evaluates tick(i), then fails
    return Bin("/", tick(i, Int(1)), Call("zero"))

def programs(tier):
    out = []
    def add(ident, prog):
        out.append({"prog": prog, "family": "c09", "ident": "c09:" + ident})
    # binary operators: both operands tick
    for op in ["+", "-", "*", "/"]:
        add(f"bin:{op}", mk(f"c09_bin_{len(out)}", [], Bin(op, tick(1, Int(8)), tick(2, Int(2)))))
    for op in ["<", "<=", ">", ">=", "==", "!="]:
        add(f"cmp:{op}", mk(f"c09_cmp_{len(out)}", [println(Call("bool_to_string", Bin(op, tick(1, Int(8)), tick(2, Int(2)))))]))
    # the same comparison operators where evaluation order changes the *value* (operands share a Ref counter)
    for op in ["<", "<=", ">", ">=", "==", "!=", "-", "/"]:
        bump = lambda: Block([Do(Call("ref_set", Var("r"), Bin("+", Call("ref_get", Var("r")), Int(1))))], Call("ref_get", Var("r")))
        e = Bin(op, bump(), bump())
        add(f"order-sensitive:{op}", mk(f"c09_ords_{len(out)}", [Let("r", Call("ref", Int(1))),
            println(Call("bool_to_string", e) if op in ("<", "<=", ">", ">=", "==", "!=") else show_int(e))]))
    for op, ty in [("+", "int8"), ("*", "int64"), ("<", "uint8"), (">=", "int16")]:
        tk = lambda i, v: Block([println(Str("t%d" % i))], Int(v, ty, suffix=True))
        e = Bin(op, tk(1, 7), tk(2, 3))
        add(f"bin-width:{op}:{ty}", mk(f"c09_binw_{len(out)}", [println(Call("bool_to_string", e) if op in ("<", ">=") else Call(ty + "_to_string", e))]))
    for op in ["-", "!"]:
        e = Un(op, tick(1, Int(4))) if op == "-" else Un(op, tickb(1, Bool(True)))
        add(f"unary:{op}", mk(f"c09_un_{len(out)}", [println(show_int(e) if op == "-" else Call("bool_to_string", e))]))
    # discarded conditionals: the effect sits in the then branch / else branch / both; value unused
    def effif(c, where):
        th = Block([Do(tick(2, Int(0)))], Unit) if where in ("then", "both") else Block([], Unit)
        el = Block([Do(tick(3, Int(0)))], Unit) if where in ("else", "both") else Block([], Unit)
        return If(c, th, el)
    for where in ("then", "else", "both"):
        for cv in (True, False):
            add(f"discard-if:let_:{where}:{int(cv)}", mk(f"c09_dif_{len(out)}", [Do(effif(tickb(1, Bool(cv)), where)), println(Str("end"))]))
            add(f"discard-if:stmt:{where}:{int(cv)}", mk(f"c09_dif_{len(out)}", [Let("c", Bool(cv)), Stmt(effif(Var("c"), where)), println(Str("end"))]))
            add(f"discard-if:while-tail:{where}:{int(cv)}", mk(f"c09_dif_{len(out)}", [Let("i", Call("ref", Int(0))), Let("c", Bool(cv)),
                Do(While(Bin("<", Call("ref_get", Var("i")), Int(2)), Block([Do(Call("ref_set", Var("i"), Bin("+", Call("ref_get", Var("i")), Int(1))))], effif(Var("c"), where)))),
                println(Str("end"))]))
            add(f"discard-if:int-valued:{where}:{int(cv)}", mk(f"c09_dif_{len(out)}", [Let("c", Bool(cv)),
                Do(If(Var("c"), tick(2, Int(1)) if where in ("then", "both") else Int(1), tick(3, Int(2)) if where in ("else", "both") else Int(2))), println(Str("end"))]))
    for sel in (0, 1, 2):
        arms = [(PInt(0), Block([], Unit)), (PInt(1), Block([Do(tick(2, Int(0)))], Unit)), (PWild, Block([Do(tick(3, Int(0)))], Unit))]
        add(f"discard-match:{sel}", mk(f"c09_dm_{len(out)}", [Let("k", Int(sel)), Do(Match(Var("k"), arms)), println(Str("end"))]))
        add(f"discard-match-int:{sel}", mk(f"c09_dm_{len(out)}", [Let("k", Int(sel)), Do(Match(Var("k"), [(PInt(0), Int(5)), (PInt(1), tick(2, Int(6))), (PWild, tick(3, Int(7)))])), println(Str("end"))]))
    # discarded matches on literals in which only some arms have an effect (all literal arms empty and the effect in `_`; the
    # effect in one literal arm only; on strings as well), selected value hitting a literal arm / the default
    for sel in (0, 7):
        only_default = [(PInt(0), Block([], Unit)), (PInt(1), Block([], Unit)), (PWild, Block([Do(tick(3, Int(0)))], Unit))]
        add(f"discard-match:only-default-has-effect:{sel}", mk(f"c09_dm_{len(out)}", [Let("k", Int(sel)), Do(Match(Var("k"), only_default)), println(Str("end"))]))
        add(f"discard-match:only-default-has-effect:stmt:{sel}", mk(f"c09_dm_{len(out)}", [Let("k", Int(sel)), Stmt(Match(Var("k"), only_default)), println(Str("end"))]))
        only_lit = [(PInt(0), Block([Do(tick(2, Int(0)))], Unit)), (PInt(1), Block([], Unit)), (PWild, Block([], Unit))]
        add(f"discard-match:only-literal-arm-has-effect:{sel}", mk(f"c09_dm_{len(out)}", [Let("k", Int(sel)), Do(Match(Var("k"), only_lit)), println(Str("end"))]))
    for sel in ("a", "zz"):
        sarms = [(PStr("a"), Block([], Unit)), (PStr("b"), Block([], Unit)), (PWild, Block([Do(tick(3, Int(0)))], Unit))]
        add(f"discard-match:string:only-default-has-effect:{sel}", mk(f"c09_dm_{len(out)}", [Let("k", Str(sel)), Do(Match(Var("k"), sarms)), println(Str("end"))]))
    for bsel in (True, False):
        barms = [(PBool(True), Block([], Unit)), (PBool(False), Block([Do(tick(3, Int(0)))], Unit))]
        add(f"discard-match:bool:only-false-arm-has-effect:{int(bsel)}", mk(f"c09_dm_{len(out)}", [Let("k", Bool(bsel)), Do(Match(Var("k"), barms)), println(Str("end"))]))
    # effects in nested unused lets inside branches and loop bodies
    add("unused-let-in-arm", mk(f"c09_ula_{len(out)}", [Let("k", Int(1)), Do(Match(Var("k"), [(PInt(1), Block([Let("u", tick(1, Int(3)))], Unit)), (PWild, Unit)])), println(Str("end"))]))
    add("unused-let-in-while", mk(f"c09_ulw_{len(out)}", [Let("i", Call("ref", Int(0))),
        Do(While(Bin("<", Call("ref_get", Var("i")), Int(2)), Block([Let("u", tick(1, Call("ref_get", Var("i")))), Do(Call("ref_set", Var("i"), Bin("+", Call("ref_get", Var("i")), Int(1))))], Unit))), println(Str("end"))]))
    add("unused-closure-call", mk(f"c09_ucc_{len(out)}", [Let("f", Lam([("x", INT32)], tick(1, Var("x")))), Do(CallV(Var("f"), Int(3))), Let("u", CallV(Var("f"), Int(4))), println(Str("end"))]))
    # callee given by a compound expression with an effect: callee first, then arguments
    add("callee:call-result", mk(f"c09_callee_{len(out)}", [], CallV(Call("pick", Int(1), Bool(True)), tick(2, Int(5)))))
    add("callee:call-result-2", mk(f"c09_callee_{len(out)}", [], CallV(Call("pick", tick(1, Int(1)), Bool(False)), Bin("+", tick(2, Int(5)), tick(3, Int(1))))))
    add("callee:array-element", mk(f"c09_callee_{len(out)}", [Let("fs", Array(FnRef("inc1"), FnRef("dbl1")))], CallV(Call("array_get", Var("fs"), tick(1, Int(1))), tick(2, Int(5)))))
    add("callee:if-result", mk(f"c09_callee_{len(out)}", [Let("g", If(tickb(1, Bool(True)), FnRef("inc1"), FnRef("dbl1")))], CallV(Var("g"), tick(2, Int(5)))))
    # discarded calls of user functions whose names resemble runtime helpers
    add("discard:helper-like-name", mk(f"c09_hln_{len(out)}", [Do(Call("audit_to_string", Int(1))), Stmt(Call("audit_to_string", Int(2))), Let("u", Call("audit_to_string", Int(3))),
                                                              Do(Call("my_len", Int(4))), println(Str("end"))]))
    add("bin:str+", mk(f"c09_strcat_{len(out)}", [println(Bin("+", ticks(1, Str("a")), ticks(2, Str("b"))))]))
    # short-circuit: all four truth combinations for && and ||
    for op in ["&&", "||"]:
        for a in (True, False):
            for b in (True, False):
                add(f"logic:{op}:{int(a)}{int(b)}", mk(f"c09_logic_{len(out)}", [println(Call("bool_to_string", Bin(op, tickb(1, Bool(a)), tickb(2, Bool(b)))))]))
        # nested: (a op b) op c with ticks
        add(f"logic-nested:{op}", mk(f"c09_logicn_{len(out)}", [println(Call("bool_to_string",
            Bin(op, Bin(op, tickb(1, Bool(op == "&&")), tickb(2, Bool(op == "&&"))), tickb(3, Bool(False)))))]))
        # right operand not a call (plain variable / comparison): no effect to lose
        add(f"logic-pure-rhs:{op}", mk(f"c09_logicp_{len(out)}", [Let("x", Int(3)), println(Call("bool_to_string", Bin(op, tickb(1, Bool(op == "||")), Bin("<", Var("x"), Int(5)))))]))
        # failing right operand must not run when the left decides
        add(f"logic-failing-rhs:{op}", mk(f"c09_logicf_{len(out)}", [println(Call("bool_to_string",
            Bin(op, tickb(1, Bool(op == "||")), Bin("==", fail_div(2), Int(0)))))]))
    # call arguments, 3 positions; nested calls
    add("call:args3", mk(f"c09_call_{len(out)}", [], Call("add3", tick(1, Int(1)), tick(2, Int(2)), tick(3, Int(3)))))
    add("call:nested", mk(f"c09_calln_{len(out)}", [], Call("add3", tick(1, Int(1)), Call("add3", tick(2, Int(1)), tick(3, Int(1)), tick(4, Int(1))), tick(5, Int(3)))))
    # method receiver + arguments (both call forms)
    recv = Struct(TAdt("S3"), [("a", tick(1, Int(1))), ("b", Int(0)), ("c", Int(0))])
    c1 = Call("inherent#S3#sum3", recv, tick(2, Int(2)), tick(3, Int(3))); c1["form"] = "method"
    add("method:dot", mk(f"c09_m_{len(out)}", [], c1))
    c2 = Call("inherent#S3#sum3", recv, tick(2, Int(2)), tick(3, Int(3))); c2["form"] = "ufcs"
    add("method:ufcs", mk(f"c09_m_{len(out)}", [], c2))
    # tuple, array, constructor
    add("tuple", mk(f"c09_tuple_{len(out)}", [Let("t", Tuple(tick(1, Int(1)), tick(2, Int(2)), tick(3, Int(3))))], Proj(Var("t"), 1)))
    add("array", mk(f"c09_array_{len(out)}", [Let("a", Array(tick(1, Int(1)), tick(2, Int(2)), tick(3, Int(3))))], Call("array_get", Var("a"), Int(2))))
    add("ctor", mk(f"c09_ctor_{len(out)}", [Let("e", Ctor(TAdt("E2"), "K2", tick(1, Int(1)), tick(2, Int(2))))],
                   Match(Var("e"), [(PCtor("K2", PVar("x"), PVar("y")), Bin("-", Var("x"), Var("y"))), (PCtor("K0"), Int(0))])))
    # struct literal: written order = declared order, and permuted
    for order in (["a", "b", "c"], ["c", "a", "b"], ["b", "c", "a"]):
        fs = [(f, tick(i + 1, Int(10 * (i + 1)))) for i, f in enumerate(order)]
        add("struct:" + "".join(order), mk(f"c09_struct_{len(out)}", [Let("s", Struct(TAdt("S3"), fs))], Field(Var("s"), order[0])))
    # discarded expressions: let _ = and statement position, incl. failing ones
    add("discard:let_", mk(f"c09_disc_{len(out)}", [Do(tick(1, Int(1))), Do(Bin("+", tick(2, Int(1)), tick(3, Int(1))))], Int(0)))
    add("discard:stmt", mk(f"c09_disc_{len(out)}", [Stmt(tick(1, Int(1))), Stmt(Bin("+", tick(2, Int(1)), tick(3, Int(1))))], Int(0)))
    add("discard:unused-let", mk(f"c09_disc_{len(out)}", [Let("u", tick(1, Int(1))), Let("w", Tuple(tick(2, Int(1)), Int(3)))], Int(0)))
    add("discard:failing-div", mk(f"c09_dfail_{len(out)}", [println(Str("before")), Do(fail_div(1)), println(Str("after"))], Int(0)))
    add("discard:failing-div-unused-let", mk(f"c09_dfail_{len(out)}", [println(Str("before")), Let("q", Bin("/", Int(1), Call("zero"))), println(Str("after"))], Int(0)))
    add("discard:failing-array-get", mk(f"c09_dfail_{len(out)}", [Let("a", Array(Int(1), Int(2))), println(Str("before")), Do(Call("array_get", Var("a"), Bin("+", Call("zero"), Int(5)))), println(Str("after"))], Int(0)))
    add("discard:failing-vec-get", mk(f"c09_dfail_{len(out)}", [Let("v", Call("vec_push", Call("vec_new", targs=[INT32]), Int(1)), ty=TVec(INT32)), println(Str("before")), Do(Call("vec_get", Var("v"), Int(3))), println(Str("after"))], Int(0)))
    add("discard:failing-match", mk(f"c09_dfail_{len(out)}", [Let("e", Ctor(TAdt("E2"), "K0")), println(Str("before")),
         Do(Match(Var("e"), [(PCtor("K2", PVar("x"), PWild), Var("x"))])), println(Str("after"))], Int(0)))
    # if / match: only the selected branch runs; condition / scrutinee once
    for c in (True, False):
        add(f"if:{int(c)}", mk(f"c09_if_{len(out)}", [], If(tickb(1, Bool(c)), tick(2, Int(10)), tick(3, Int(20)))))
    for sel in (0, 1, 2):
        add(f"match:{sel}", mk(f"c09_match_{len(out)}", [], Match(tick(1, Int(sel)), [(PInt(0), tick(2, Int(10))), (PInt(1), tick(3, Int(20))), (PWild, tick(4, Int(30)))])))
    # while: condition re-evaluated before every iteration
    add("while", mk(f"c09_while_{len(out)}", [Let("i", Call("ref", Int(0))),
        Do(While(Bin("<", tick(1, Call("ref_get", Var("i"))), Int(3)), Block([Do(Call("ref_set", Var("i"), Bin("+", Call("ref_get", Var("i")), Int(1)))), Do(tick(2, Int(0)))], Unit)))],
        Call("ref_get", Var("i"))))
    add("while:compound-cond", mk(f"c09_while_{len(out)}", [Let("i", Call("ref", Int(0))),
        Do(While(Bin("&&", Bin("<", tick(1, Call("ref_get", Var("i"))), Int(2)), tickb(2, Bool(True))), Block([Do(Call("ref_set", Var("i"), Bin("+", Call("ref_get", Var("i")), Int(1))))], Unit)))],
        Call("ref_get", Var("i"))))
    # while: every *shape* of condition is re-evaluated (a bare call, a Ref read, a negation, a method call, a match, a block)
    p_more = ("more", [("r", TRef(INT32)), ("n", INT32)], BOOL,
              Block([println(Str("cond"))], Bin("<", Call("ref_get", Var("r")), Var("n"))))
    bump_i = Do(Call("ref_set", Var("i"), Bin("+", Call("ref_get", Var("i")), Int(1))))
    conds = {
        "bare-call": Call("more", Var("i"), Int(3)),
        "negated-call": Un("!", Un("!", Call("more", Var("i"), Int(3)))),
        "ref-read": Call("ref_get", Var("going")),
        "match": Match(Call("more", Var("i"), Int(2)), [(PBool(True), Bool(True)), (PBool(False), Bool(False))]),
        "if": If(Call("more", Var("i"), Int(2)), Bool(True), Bool(False)),
        "block": Block([println(Str("blk"))], Bin("<", Call("ref_get", Var("i")), Int(2))),
    }
    for cname, cond in conds.items():
        p = mk(f"c09_whilec_{len(out)}", [Let("i", Call("ref", Int(0))), Let("going", Call("ref", Bool(True))),
            Do(While(cond, Block([bump_i, Do(Call("ref_set", Var("going"), Bin("<", Call("ref_get", Var("i")), Int(3)))), println(Str("body"))], Unit)))],
            Call("ref_get", Var("i")))
        p.fn(*p_more)
        add(f"while-cond:{cname}", p)
    # short-circuit guards whose right operand has only operators (no call): a failing division must not run
    for op, lhs_decides in (("&&", False), ("||", True)):
        for rhs_name, rhs in (("div", Bin(">", Bin("/", Var("a"), Var("b")), Int(1))),
                              ("div-nested", Bin(">", Bin("+", Bin("/", Var("a"), Var("b")), Bin("*", Var("a"), Int(2))), Int(1))),
                              ("div-eq", Bin("==", Bin("/", Int(10), Var("b")), Var("a")))):
            guard = Bin("!=" if op == "&&" else "==", Var("b"), Int(0))
            f = ("guarded", [("a", INT32), ("b", INT32)], BOOL, Bin(op, guard, rhs))
            p = mk(f"c09_guard_{len(out)}", [println(Call("bool_to_string", Call("guarded", Int(10), Int(2)))),
                                              println(Call("bool_to_string", Call("guarded", Int(10), Int(0)))),
                                              println(Call("bool_to_string", Call("guarded", Int(1), Int(5))))])
            p.fn(*f)
            add(f"guard:{op}:{rhs_name}", p)
        # the same inside a condition and a let
        f = ("pick2", [("a", INT32), ("b", INT32)], INT32,
             Block([Let("ok", Bin(op, Bin("!=" if op == "&&" else "==", Var("b"), Int(0)), Bin(">", Bin("/", Var("a"), Var("b")), Int(1))))],
                   If(Bin(op, Bin("!=" if op == "&&" else "==", Var("b"), Int(0)), Bin("<", Bin("/", Var("a"), Var("b")), Int(100))), If(Var("ok"), Int(1), Int(2)), Int(3))))
        p = mk(f"c09_guardif_{len(out)}", [println(show_int(Call("pick2", Int(10), Int(2)))), println(show_int(Call("pick2", Int(10), Int(0))))])
        p.fn(*f)
        add(f"guard-in-if:{op}", p)
    # Ref updates interleaved with reads in one expression
    add("ref:read-write-read", mk(f"c09_ref_{len(out)}", [Let("r", Call("ref", Int(1)))],
        Call("add3", Call("ref_get", Var("r")), Block([Do(Call("ref_set", Var("r"), Int(5)))], Int(0)), Call("ref_get", Var("r")))))
    # closure call: callee expression, then arguments
    add("callv", mk(f"c09_callv_{len(out)}", [Let("f", Lam([("x", INT32), ("y", INT32)], Bin("-", Var("x"), Var("y"))))], CallV(Var("f"), tick(1, Int(9)), tick(2, Int(4)))))
    return out
