"""C09 family: every n-ary construct with observable effects (ticks / failing operations) in every operand position."""
from gast import *

def tick(i, v):       # prints "t<i>" and returns v (int32)
    return Call("tick", Int(i), v)
def tickb(i, v):
    return Call("tickb", Int(i), v)
def ticks(i, v):
    return Call("ticks", Int(i), v)

def prelude(p):
    p.fn("tick", [("i", INT32), ("v", INT32)], INT32, Block([println(Bin("+", Str("t"), show_int(Var("i"))))], Var("v")))
    p.fn("tickb", [("i", INT32), ("v", BOOL)], BOOL, Block([println(Bin("+", Str("t"), show_int(Var("i"))))], Var("v")))
    p.fn("ticks", [("i", INT32), ("v", STRING)], STRING, Block([println(Bin("+", Str("t"), show_int(Var("i"))))], Var("v")))
    p.fn("zero", [], INT32, Int(0))
    p.fn("inc1", [("x", INT32)], INT32, Bin("+", Var("x"), Int(1)))
    p.fn("dbl1", [("x", INT32)], INT32, Bin("*", Var("x"), Int(2)))
    p.fn("pick", [("i", INT32), ("b", BOOL)], TFn([INT32], INT32), Block([println(Bin("+", Str("pick"), show_int(Var("i"))))], If(Var("b"), FnRef("inc1"), FnRef("dbl1"))))
    # user functions whose names look like runtime helpers / Go builtins, with an effect
    p.fn("audit_to_string", [("x", INT32)], STRING, Block([println(Bin("+", Str("audit"), show_int(Var("x"))))], Str("a")))
    p.fn("my_len", [("x", INT32)], INT32, Block([println(Str("my_len"))], Var("x")))
    p.fn("add3", [("a", INT32), ("b", INT32), ("c", INT32)], INT32, Bin("+", Bin("+", Var("a"), Var("b")), Var("c")))
    p.struct("S3", [("a", INT32), ("b", INT32), ("c", INT32)])
    p.enum("E2", [("K0", []), ("K2", [INT32, INT32])])
    p.impl(None, TAdt("S3"), [("sum3", [("self", TAdt("S3")), ("x", INT32), ("y", INT32)], INT32,
                                 Bin("+", Bin("+", Field(Var("self"), "a"), Var("x")), Var("y")))])

def mk(name, body_stmts, result=None):
    """program printing ticks then the final int result"""
    p = Program(name)
    prelude(p)
    stmts = list(body_stmts)
    if result is not None:
        stmts.append(println(show_int(result)))
    p.fn("main", [], UNIT, Block(stmts, Unit))
    return p

def fail_div(i):      # evaluates tick(i), then fails
    return Bin("/", tick(i, Int(1)), Call("zero"))

def programs(tier):
    out = []
    def add(ident, prog):
        out.append({"prog": prog, "family": "c09", "ident": "c09:" + ident})
    # binary operators: both operands tick
    for op in ["+", "-", "*", "/"]:
        add(f"bin:{op}", mk(f"c09_bin_{len(out)}", [], Bin(op, tick(1, Int(8)), tick(2, Int(2)))))
    for op in ["<", "<=", ">", ">=", "==", "!="]:
        add(f"cmp:{op}", mk(f"c09_cmp_{len(out)}", [println(Call("bool_to_string", Bin(op, tick(1, Int(8)), tick(2, Int(2)))))]))
    # the same comparison operators where evaluation order changes the *value* (operands share a Ref counter)
    for op in ["<", "<=", ">", ">=", "==", "!=", "-", "/"]:
        bump = lambda: Block([Do(Call("ref_set", Var("r"), Bin("+", Call("ref_get", Var("r")), Int(1))))], Call("ref_get", Var("r")))
        e = Bin(op, bump(), bump())
        add(f"order-sensitive:{op}", mk(f"c09_ords_{len(out)}", [Let("r", Call("ref", Int(1))),
            println(Call("bool_to_string", e) if op in ("<", "<=", ">", ">=", "==", "!=") else show_int(e))]))
    for op, ty in [("+", "int8"), ("*", "int64"), ("<", "uint8"), (">=", "int16")]:
        tk = lambda i, v: Block([println(Str("t%d" % i))], Int(v, ty, suffix=True))
        e = Bin(op, tk(1, 7), tk(2, 3))
        add(f"bin-width:{op}:{ty}", mk(f"c09_binw_{len(out)}", [println(Call("bool_to_string", e) if op in ("<", ">=") else Call(ty + "_to_string", e))]))
    for op in ["-", "!"]:
        e = Un(op, tick(1, Int(4))) if op == "-" else Un(op, tickb(1, Bool(True)))
        add(f"unary:{op}", mk(f"c09_un_{len(out)}", [println(show_int(e) if op == "-" else Call("bool_to_string", e))]))
    # discarded conditionals: the effect sits in the then branch / else branch / both; value unused
    def effif(c, where):
        th = Block([Do(tick(2, Int(0)))], Unit) if where in ("then", "both") else Block([], Unit)
        el = Block([Do(tick(3, Int(0)))], Unit) if where in ("else", "both") else Block([], Unit)
        return If(c, th, el)
    for where in ("then", "else", "both"):
        for cv in (True, False):
            add(f"discard-if:let_:{where}:{int(cv)}", mk(f"c09_dif_{len(out)}", [Do(effif(tickb(1, Bool(cv)), where)), println(Str("end"))]))
            add(f"discard-if:stmt:{where}:{int(cv)}", mk(f"c09_dif_{len(out)}", [Let("c", Bool(cv)), Stmt(effif(Var("c"), where)), println(Str("end"))]))
            add(f"discard-if:while-tail:{where}:{int(cv)}", mk(f"c09_dif_{len(out)}", [Let("i", Call("ref", Int(0))), Let("c", Bool(cv)),
                Do(While(Bin("<", Call("ref_get", Var("i")), Int(2)), Block([Do(Call("ref_set", Var("i"), Bin("+", Call("ref_get", Var("i")), Int(1))))], effif(Var("c"), where)))),
                println(Str("end"))]))
            add(f"discard-if:int-valued:{where}:{int(cv)}", mk(f"c09_dif_{len(out)}", [Let("c", Bool(cv)),
                Do(If(Var("c"), tick(2, Int(1)) if where in ("then", "both") else Int(1), tick(3, Int(2)) if where in ("else", "both") else Int(2))), println(Str("end"))]))
    for sel in (0, 1, 2):
        arms = [(PInt(0), Block([], Unit)), (PInt(1), Block([Do(tick(2, Int(0)))], Unit)), (PWild, Block([Do(tick(3, Int(0)))], Unit))]
        add(f"discard-match:{sel}", mk(f"c09_dm_{len(out)}", [Let("k", Int(sel)), Do(Match(Var("k"), arms)), println(Str("end"))]))
        add(f"discard-match-int:{sel}", mk(f"c09_dm_{len(out)}", [Let("k", Int(sel)), Do(Match(Var("k"), [(PInt(0), Int(5)), (PInt(1), tick(2, Int(6))), (PWild, tick(3, Int(7)))])), println(Str("end"))]))
    # discarded matches on literals in which only some arms have an effect (all literal arms empty and the effect in `_`; the
    # effect in one literal arm only; on strings as well), selected value hitting a literal arm / the default
    for sel in (0, 7):
        only_default = [(PInt(0), Block([], Unit)), (PInt(1), Block([], Unit)), (PWild, Block([Do(tick(3, Int(0)))], Unit))]
        add(f"discard-match:only-default-has-effect:{sel}", mk(f"c09_dm_{len(out)}", [Let("k", Int(sel)), Do(Match(Var("k"), only_default)), println(Str("end"))]))
        add(f"discard-match:only-default-has-effect:stmt:{sel}", mk(f"c09_dm_{len(out)}", [Let("k", Int(sel)), Stmt(Match(Var("k"), only_default)), println(Str("end"))]))
        only_lit = [(PInt(0), Block([Do(tick(2, Int(0)))], Unit)), (PInt(1), Block([], Unit)), (PWild, Block([], Unit))]
        add(f"discard-match:only-literal-arm-has-effect:{sel}", mk(f"c09_dm_{len(out)}", [Let("k", Int(sel)), Do(Match(Var("k"), only_lit)), println(Str("end"))]))
    for sel in ("a", "zz"):
        sarms = [(PStr("a"), Block([], Unit)), (PStr("b"), Block([], Unit)), (PWild, Block([Do(tick(3, Int(0)))], Unit))]
        add(f"discard-match:string:only-default-has-effect:{sel}", mk(f"c09_dm_{len(out)}", [Let("k", Str(sel)), Do(Match(Var("k"), sarms)), println(Str("end"))]))
    for bsel in (True, False):
        barms = [(PBool(True), Block([], Unit)), (PBool(False), Block([Do(tick(3, Int(0)))], Unit))]
        add(f"discard-match:bool:only-false-arm-has-effect:{int(bsel)}", mk(f"c09_dm_{len(out)}", [Let("k", Bool(bsel)), Do(Match(Var("k"), barms)), println(Str("end"))]))
    # effects in nested unused lets inside branches and loop bodies
    add("unused-let-in-arm", mk(f"c09_ula_{len(out)}", [Let("k", Int(1)), Do(Match(Var("k"), [(PInt(1), Block([Let("u", tick(1, Int(3)))], Unit)), (PWild, Unit)])), println(Str("end"))]))
    add("unused-let-in-while", mk(f"c09_ulw_{len(out)}", [Let("i", Call("ref", Int(0))),
        Do(While(Bin("<", Call("ref_get", Var("i")), Int(2)), Block([Let("u", tick(1, Call("ref_get", Var("i")))), Do(Call("ref_set", Var("i"), Bin("+", Call("ref_get", Var("i")), Int(1))))], Unit))), println(Str("end"))]))
    add("unused-closure-call", mk(f"c09_ucc_{len(out)}", [Let("f", Lam([("x", INT32)], tick(1, Var("x")))), Do(CallV(Var("f"), Int(3))), Let("u", CallV(Var("f"), Int(4))), println(Str("end"))]))
    # callee given by a compound expression with an effect: callee first, then arguments
    add("callee:call-result", mk(f"c09_callee_{len(out)}", [], CallV(Call("pick", Int(1), Bool(True)), tick(2, Int(5)))))
    add("callee:call-result-2", mk(f"c09_callee_{len(out)}", [], CallV(Call("pick", tick(1, Int(1)), Bool(False)), Bin("+", tick(2, Int(5)), tick(3, Int(1))))))
    add("callee:array-element", mk(f"c09_callee_{len(out)}", [Let("fs", Array(FnRef("inc1"), FnRef("dbl1")))], CallV(Call("array_get", Var("fs"), tick(1, Int(1))), tick(2, Int(5)))))
    add("callee:if-result", mk(f"c09_callee_{len(out)}", [Let("g", If(tickb(1, Bool(True)), FnRef("inc1"), FnRef("dbl1")))], CallV(Var("g"), tick(2, Int(5)))))
    # discarded calls of user functions whose names resemble runtime helpers
    add("discard:helper-like-name", mk(f"c09_hln_{len(out)}", [Do(Call("audit_to_string", Int(1))), Stmt(Call("audit_to_string", Int(2))), Let("u", Call("audit_to_string", Int(3))),
                                                              Do(Call("my_len", Int(4))), println(Str("end"))]))
    add("bin:str+", mk(f"c09_strcat_{len(out)}", [println(Bin("+", ticks(1, Str("a")), ticks(2, Str("b"))))]))
    # short-circuit: all four truth combinations for && and ||
    for op in ["&&", "||"]:
        for a in (True, False):
            for b in (True, False):
                add(f"logic:{op}:{int(a)}{int(b)}", mk(f"c09_logic_{len(out)}", [println(Call("bool_to_string", Bin(op, tickb(1, Bool(a)), tickb(2, Bool(b)))))]))
        # nested: (a op b) op c with ticks
        add(f"logic-nested:{op}", mk(f"c09_logicn_{len(out)}", [println(Call("bool_to_string",
            Bin(op, Bin(op, tickb(1, Bool(op == "&&")), tickb(2, Bool(op == "&&"))), tickb(3, Bool(False)))))]))
        # right operand not a call (plain variable / comparison): no effect to lose
        add(f"logic-pure-rhs:{op}", mk(f"c09_logicp_{len(out)}", [Let("x", Int(3)), println(Call("bool_to_string", Bin(op, tickb(1, Bool(op == "||")), Bin("<", Var("x"), Int(5)))))]))
        # failing right operand must not run when the left decides
        add(f"logic-failing-rhs:{op}", mk(f"c09_logicf_{len(out)}", [println(Call("bool_to_string",
            Bin(op, tickb(1, Bool(op == "||")), Bin("==", fail_div(2), Int(0)))))]))
    # call arguments, 3 positions; nested calls
    add("call:args3", mk(f"c09_call_{len(out)}", [], Call("add3", tick(1, Int(1)), tick(2, Int(2)), tick(3, Int(3)))))
    add("call:nested", mk(f"c09_calln_{len(out)}", [], Call("add3", tick(1, Int(1)), Call("add3", tick(2, Int(1)), tick(3, Int(1)), tick(4, Int(1))), tick(5, Int(3)))))
    # method receiver + arguments (both call forms)
    recv = Struct(TAdt("S3"), [("a", tick(1, Int(1))), ("b", Int(0)), ("c", Int(0))])
    c1 = Call("inherent#S3#sum3", recv, tick(2, Int(2)), tick(3, Int(3))); c1["form"] = "method"
    add("method:dot", mk(f"c09_m_{len(out)}", [], c1))
    c2 = Call("inherent#S3#sum3", recv, tick(2, Int(2)), tick(3, Int(3))); c2["form"] = "ufcs"
    add("method:ufcs", mk(f"c09_m_{len(out)}", [], c2))
    # tuple, array, constructor
    add("tuple", mk(f"c09_tuple_{len(out)}", [Let("t", Tuple(tick(1, Int(1)), tick(2, Int(2)), tick(3, Int(3))))], Proj(Var("t"), 1)))
    add("array", mk(f"c09_array_{len(out)}", [Let("a", Array(tick(1, Int(1)), tick(2, Int(2)), tick(3, Int(3))))], Call("array_get", Var("a"), Int(2))))
    add("ctor", mk(f"c09_ctor_{len(out)}", [Let("e", Ctor(TAdt("E2"), "K2", tick(1, Int(1)), tick(2, Int(2))))],
                   Match(Var("e"), [(PCtor("K2", PVar("x"), PVar("y")), Bin("-", Var("x"), Var("y"))), (PCtor("K0"), Int(0))])))
    # struct literal: written order = declared order, and permuted
    for order in (["a", "b", "c"], ["c", "a", "b"], ["b", "c", "a"]):
        fs = [(f, tick(i + 1, Int(10 * (i + 1)))) for i, f in enumerate(order)]
        add("struct:" + "".join(order), mk(f"c09_struct_{len(out)}", [Let("s", Struct(TAdt("S3"), fs))], Field(Var("s"), order[0])))
    # discarded expressions: let _ = and statement position, incl. failing ones
    add("discard:let_", mk(f"c09_disc_{len(out)}", [Do(tick(1, Int(1))), Do(Bin("+", tick(2, Int(1)), tick(3, Int(1))))], Int(0)))
    add("discard:stmt", mk(f"c09_disc_{len(out)}", [Stmt(tick(1, Int(1))), Stmt(Bin("+", tick(2, Int(1)), tick(3, Int(1))))], Int(0)))
    add("discard:unused-let", mk(f"c09_disc_{len(out)}", [Let("u", tick(1, Int(1))), Let("w", Tuple(tick(2, Int(1)), Int(3)))], Int(0)))
    add("discard:failing-div", mk(f"c09_dfail_{len(out)}", [println(Str("before")), Do(fail_div(1)), println(Str("after"))], Int(0)))
    add("discard:failing-div-unused-let", mk(f"c09_dfail_{len(out)}", [println(Str("before")), Let("q", Bin("/", Int(1), Call("zero"))), println(Str("after"))], Int(0)))
    add("discard:failing-array-get", mk(f"c09_dfail_{len(out)}", [Let("a", Array(Int(1), Int(2))), println(Str("before")), Do(Call("array_get", Var("a"), Bin("+", Call("zero"), Int(5)))), println(Str("after"))], Int(0)))
    add("discard:failing-vec-get", mk(f"c09_dfail_{len(out)}", [Let("v", Call("vec_push", Call("vec_new", targs=[INT32]), Int(1)), ty=TVec(INT32)), println(Str("before")), Do(Call("vec_get", Var("v"), Int(3))), println(Str("after"))], Int(0)))
    add("discard:failing-match", mk(f"c09_dfail_{len(out)}", [Let("e", Ctor(TAdt("E2"), "K0")), println(Str("before")),
         Do(Match(Var("e"), [(PCtor("K2", PVar("x"), PWild), Var("x"))])), println(Str("after"))], Int(0)))
    # if / match: only the selected branch runs; condition / scrutinee once
    for c in (True, False):
        add(f"if:{int(c)}", mk(f"c09_if_{len(out)}", [], If(tickb(1, Bool(c)), tick(2, Int(10)), tick(3, Int(20)))))
    for sel in (0, 1, 2):
        add(f"match:{sel}", mk(f"c09_match_{len(out)}", [], Match(tick(1, Int(sel)), [(PInt(0), tick(2, Int(10))), (PInt(1), tick(3, Int(20))), (PWild, tick(4, Int(30)))])))
    # while: condition re-evaluated before every iteration
    add("while", mk(f"c09_while_{len(out)}", [Let("i", Call("ref", Int(0))),
        Do(While(Bin("<", tick(1, Call("ref_get", Var("i"))), Int(3)), Block([Do(Call("ref_set", Var("i"), Bin("+", Call("ref_get", Var("i")), Int(1)))), Do(tick(2, Int(0)))], Unit)))],
        Call("ref_get", Var("i"))))
    add("while:compound-cond", mk(f"c09_while_{len(out)}", [Let("i", Call("ref", Int(0))),
        Do(While(Bin("&&", Bin("<", tick(1, Call("ref_get", Var("i"))), Int(2)), tickb(2, Bool(True))), Block([Do(Call("ref_set", Var("i"), Bin("+", Call("ref_get", Var("i")), Int(1))))], Unit)))],
        Call("ref_get", Var("i"))))
    # while: every *shape* of condition is re-evaluated (a bare call, a Ref read, a negation, a method call, a match, a block)
    p_more = ("more", [("r", TRef(INT32)), ("n", INT32)], BOOL,
              Block([println(Str("cond"))], Bin("<", Call("ref_get", Var("r")), Var("n"))))
    bump_i = Do(Call("ref_set", Var("i"), Bin("+", Call("ref_get", Var("i")), Int(1))))
    conds = {
        "bare-call": Call("more", Var("i"), Int(3)),
        "negated-call": Un("!", Un("!", Call("more", Var("i"), Int(3)))),
        "ref-read": Call("ref_get", Var("going")),
        "match": Match(Call("more", Var("i"), Int(2)), [(PBool(True), Bool(True)), (PBool(False), Bool(False))]),
        "if": If(Call("more", Var("i"), Int(2)), Bool(True), Bool(False)),
        "block": Block([println(Str("blk"))], Bin("<", Call("ref_get", Var("i")), Int(2))),
    }
    for cname, cond in conds.items():
        p = mk(f"c09_whilec_{len(out)}", [Let("i", Call("ref", Int(0))), Let("going", Call("ref", Bool(True))),
            Do(While(cond, Block([bump_i, Do(Call("ref_set", Var("going"), Bin("<", Call("ref_get", Var("i")), Int(3)))), println(Str("body"))], Unit)))],
            Call("ref_get", Var("i")))
        p.fn(*p_more)
        add(f"while-cond:{cname}", p)
    # short-circuit guards whose right operand has only operators (no call): a failing division must not run
    for op, lhs_decides in (("&&", False), ("||", True)):
        for rhs_name, rhs in (("div", Bin(">", Bin("/", Var("a"), Var("b")), Int(1))),
                              ("div-nested", Bin(">", Bin("+", Bin("/", Var("a"), Var("b")), Bin("*", Var("a"), Int(2))), Int(1))),
                              ("div-eq", Bin("==", Bin("/", Int(10), Var("b")), Var("a")))):
            guard = Bin("!=" if op == "&&" else "==", Var("b"), Int(0))
            f = ("guarded", [("a", INT32), ("b", INT32)], BOOL, Bin(op, guard, rhs))
            p = mk(f"c09_guard_{len(out)}", [println(Call("bool_to_string", Call("guarded", Int(10), Int(2)))),
                                              println(Call("bool_to_string", Call("guarded", Int(10), Int(0)))),
                                              println(Call("bool_to_string", Call("guarded", Int(1), Int(5))))])
            p.fn(*f)
            add(f"guard:{op}:{rhs_name}", p)
        # the same inside a condition and a let
        f = ("pick2", [("a", INT32), ("b", INT32)], INT32,
             Block([Let("ok", Bin(op, Bin("!=" if op == "&&" else "==", Var("b"), Int(0)), Bin(">", Bin("/", Var("a"), Var("b")), Int(1))))],
                   If(Bin(op, Bin("!=" if op == "&&" else "==", Var("b"), Int(0)), Bin("<", Bin("/", Var("a"), Var("b")), Int(100))), If(Var("ok"), Int(1), Int(2)), Int(3))))
        p = mk(f"c09_guardif_{len(out)}", [println(show_int(Call("pick2", Int(10), Int(2)))), println(show_int(Call("pick2", Int(10), Int(0))))])
        p.fn(*f)
        add(f"guard-in-if:{op}", p)
    # Ref updates interleaved with reads in one expression
    add("ref:read-write-read", mk(f"c09_ref_{len(out)}", [Let("r", Call("ref", Int(1)))],
        Call("add3", Call("ref_get", Var("r")), Block([Do(Call("ref_set", Var("r"), Int(5)))], Int(0)), Call("ref_get", Var("r")))))
    # closure call: callee expression, then arguments
    add("callv", mk(f"c09_callv_{len(out)}", [Let("f", Lam([("x", INT32), ("y", INT32)], Bin("-", Var("x"), Var("y"))))], CallV(Var("f"), tick(1, Int(9)), tick(2, Int(4)))))
    return out


# ======================================================================================================================
# effect-tail: a call made only for its effect as the LAST expression (no `;`) of a while body, of an if / match arm or a
# block that is itself such a tail, for every call form of the language.  The callee prints "t<i>" and adds i to a counter;
# the meaning (GomlSem) runs it once per evaluation of the enclosing tail.
# ======================================================================================================================
CN = TAdt("Counter")

# Not in the list, on purpose:
#  * `x.tick(i)` with x of a concrete type or of type `dyn Tick`: not goml (typer: "Method tick not found"; the dot form of a trait
#    method exists only under a `T: Tick` bound);
#  * "closure-param" (the closure handed to `run` as an argument of type `(int32) -> unit`): genuine defect of goml that is already
#    listed (C08-closure-value-where-func-type-expected: the argument is emitted as its closure_env struct where Go expects a func),
#    so such a program never reaches the comparison.  _tail_call still knows the form; enable it when the defect is fixed.
TAIL_FORMS = ["fn", "closure-local", "inh-method", "inh-ufcs", "concrete-ufcs", "bound-ufcs", "bound-method", "dyn"]


def _tail_decls(p):
    def body(recv):
        cell = Field(recv, "cell")
        return Block([println(Bin("+", Str("t"), show_int(Var("i"))))], Call("ref_set", cell, Bin("+", Call("ref_get", cell), Var("i"))))
    p.struct("Counter", [("cell", TRef(INT32))])
    p.trait("Tick", [("tick", [INT32], UNIT)])
    p.impl("Tick", CN, [("tick", [("self", CN), ("i", INT32)], UNIT, body(Var("self")))])
    # a second implementation so that dispatch has something to get wrong
    p.impl("Tick", INT32, [("tick", [("self", INT32), ("i", INT32)], UNIT, Block([println(Str("wrong impl"))], Unit))])
    p.impl(None, CN, [("bump", [("self", CN), ("i", INT32)], UNIT, body(Var("self")))])
    p.fn("ftick", [("x", CN), ("i", INT32)], UNIT, body(Var("x")))


def _tail_call(form, i):
    """the effect call number i of the given form; `x` is the receiver / callee parameter of `run`"""
    if form == "fn":
        return Call("ftick", Var("x"), Int(i))
    if form == "closure-local":
        return CallV(Var("f"), Int(i))
    if form == "closure-param":
        return CallV(Var("x"), Int(i))
    if form in ("inh-method", "inh-ufcs"):
        c = Call("inherent#Counter#bump", Var("x"), Int(i)); c["form"] = "method" if form == "inh-method" else "ufcs"; return c
    if form == "bound-method":
        return TCall("Tick", "tick", Var("x"), Int(i), form="method")
    return TCall("Tick", "tick", Var("x"), Int(i))             # concrete-ufcs / bound-ufcs / dyn


def _tail_positions():
    """name -> function(call) -> list of statements of `run(x, cell, b, k)`; call(i) makes a fresh effect call numbered i.
    Every loop runs its body twice; `n` counts iterations."""
    n_lt = lambda lim: Bin("<", Call("ref_get", Var("n")), Int(lim))
    bump_n = Do(Call("ref_set", Var("n"), Bin("+", Call("ref_get", Var("n")), Int(1))))
    def loop(tail, before=()):
        return [Let("n", Call("ref", Int(0))), Stmt(While(n_lt(2), Block([bump_n] + list(before), tail)))]
    U = lambda: Block([], Unit)
    B = lambda e: Block([], e)
    P = {}
    P["while-tail"] = lambda call: loop(call(1))
    P["while-tail:after-same-call-as-stmt"] = lambda call: loop(call(2), before=[Stmt(call(1))])
    # the body is nothing but the call: the condition reads what the call changes
    P["while-tail:whole-body"] = lambda call: [Do(Call("ref_set", Var("cell"), Int(0))),
                                               Stmt(While(Bin("<", Call("ref_get", Var("cell")), Int(3)), B(call(1))))]
    P["while-tail:if-both-arms"] = lambda call: loop(If(Var("b"), B(call(1)), B(call(2))))
    P["while-tail:if-then-only"] = lambda call: loop(If(Var("b"), B(call(1)), U()))
    P["while-tail:if-else-only"] = lambda call: loop(If(Var("b"), U(), B(call(2))))
    P["while-tail:match-literal-arm"] = lambda call: loop(Match(Var("k"), [(PInt(0), call(1)), (PWild, Unit)]))
    P["while-tail:match-default-arm"] = lambda call: loop(Match(Var("k"), [(PInt(0), Unit), (PWild, call(2))]))
    P["while-tail:match-bool-arms"] = lambda call: loop(Match(Var("b"), [(PBool(True), call(1)), (PBool(False), call(2))]))
    P["while-tail:block"] = lambda call: loop(Block([println(Str("blk"))], call(1)))
    P["while-tail:if-in-match-arm"] = lambda call: loop(Match(Var("k"), [(PInt(0), If(Var("b"), B(call(1)), U())), (PWild, If(Var("b"), U(), B(call(2))))]))
    P["while-tail:match-in-if-arm"] = lambda call: loop(If(Var("b"), B(Match(Var("k"), [(PInt(0), call(1)), (PWild, call(2))])), B(call(3))))
    P["while-tail:inner-while-tail"] = lambda call: loop(While(Bin("<", Call("ref_get", Var("m")), Int(2)),
                                                               Block([Do(Call("ref_set", Var("m"), Bin("+", Call("ref_get", Var("m")), Int(1))))], call(1))),
                                                         before=[Let("m", Call("ref", Int(0)))])
    # the same tails outside a loop: statement position of a function body
    P["stmt:if-arms"] = lambda call: [Stmt(If(Var("b"), B(call(1)), B(call(2)))), Stmt(If(Var("b"), B(call(3)), U()))]
    P["stmt:match-arms"] = lambda call: [Stmt(Match(Var("k"), [(PInt(0), call(1)), (PWild, call(2))]))]
    P["stmt:block"] = lambda call: [Stmt(Block([println(Str("blk"))], call(1)))]
    return P


QUICK_TAIL_POSITIONS = ["while-tail", "while-tail:whole-body", "while-tail:if-else-only", "while-tail:match-default-arm", "while-tail:block",
                        "while-tail:if-in-match-arm"]


def effect_tail_programs(tier):
    out = []
    P = _tail_positions()
    for form in TAIL_FORMS:
        for pos, mk_stmts in P.items():
            if tier == "quick" and pos not in QUICK_TAIL_POSITIONS:
                continue
            p = Program(("c09_tail_%s_%s" % (form, pos)).replace("-", "_").replace(":", "_"))
            _tail_decls(p)
            bound = form.startswith("bound")
            xty = TParam("T") if bound else TDyn("Tick") if form == "dyn" else TFn([INT32], UNIT) if form == "closure-param" else CN
            stmts = mk_stmts(lambda i: _tail_call(form, i))
            if form == "closure-local":
                stmts = [Let("f", Lam([("i", INT32)], Call("ftick", Var("x"), Var("i"))))] + stmts
            p.fn("run", [("x", xty), ("cell", TRef(INT32)), ("b", BOOL), ("k", INT32)], UNIT, Block(stmts, Unit),
                 gens=[("T", ["Tick"])] if bound else [])
            arg = lambda: ToDyn("Tick", Var("c")) if form == "dyn" else Lam([("i", INT32)], Call("ftick", Var("c"), Var("i"))) if form == "closure-param" else Var("c")
            ta = [CN] if bound else []
            p.fn("main", [], UNIT, Block([
                Let("c", Struct(CN, [("cell", Call("ref", Int(0)))]), ty=CN),
                Do(Call("run", arg(), Field(Var("c"), "cell"), Bool(True), Int(0), targs=ta)),
                println(show_int(Call("ref_get", Field(Var("c"), "cell")))),
                Do(Call("run", arg(), Field(Var("c"), "cell"), Bool(False), Int(5), targs=ta)),
                println(show_int(Call("ref_get", Field(Var("c"), "cell")))),
            ], Unit))
            out.append({"prog": p, "family": "c09-effect-tail", "ident": f"c09:effect-tail:{form}:{pos}"})
    return out


# ======================================================================================================================
# literal-elim: a tuple / struct / array / constructor literal that is taken apart on the spot (projection, field read, index,
# match, let pattern).  Every component is evaluated, left to right, exactly once - the selected one and the others -
# whatever the shape of the component: the effect at its top node (depth 0), under one operator / conditional / literal
# (depth 1), or under two (depth 2).
# ======================================================================================================================
S3 = TAdt("S3")
E2 = TAdt("E2")


def _shapes():
    """name -> f(i, v): int32 expression of value v that prints t<i> once; `c` = true, `k` = 0 are in scope"""
    Sh = {}
    Sh["d0:call"] = lambda i, v: tick(i, Int(v))
    Sh["d1:binary"] = lambda i, v: Bin("+", tick(i, Int(v)), Int(0))
    Sh["d1:negation"] = lambda i, v: Un("-", tick(i, Int(-v)))
    Sh["d1:if"] = lambda i, v: If(Var("c"), tick(i, Int(v)), Int(v))
    Sh["d1:match"] = lambda i, v: Match(Var("k"), [(PInt(0), tick(i, Int(v))), (PWild, Int(v))])
    Sh["d1:block"] = lambda i, v: Block([Do(tick(i, Int(0)))], Int(v))
    Sh["d1:tuple-projection"] = lambda i, v: Proj(Tuple(tick(i, Int(v)), Int(0)), 0)
    Sh["d1:struct-field"] = lambda i, v: Field(Struct(S3, [("a", Int(0)), ("b", tick(i, Int(v))), ("c", Int(0))]), "b")
    Sh["d1:ctor-match"] = lambda i, v: Match(Ctor(E2, "K2", tick(i, Int(v)), Int(0)), [(PCtor("K2", PVar("p"), PWild), Var("p")), (PCtor("K0"), Int(0))])
    Sh["d2:binary-binary"] = lambda i, v: Bin("*", Bin("+", tick(i, Int(v)), Int(0)), Int(1))
    Sh["d2:if-binary"] = lambda i, v: If(Var("c"), Bin("+", tick(i, Int(v)), Int(0)), Int(v))
    Sh["d2:binary-if"] = lambda i, v: Bin("+", If(Var("c"), tick(i, Int(v)), Int(v)), Int(0))
    Sh["d2:tuple-binary"] = lambda i, v: Proj(Tuple(Int(0), Bin("+", tick(i, Int(v)), Int(0))), 1)
    Sh["d2:if-if"] = lambda i, v: If(Var("c"), If(Var("c"), tick(i, Int(v)), Int(v)), Int(v))
    return Sh


def _elims():
    """name -> (arity, f(components, sel) -> (stmts, int32 expression))"""
    xs = ["x0", "x1", "x2"]
    El = {}
    El["tuple2-projection"] = (2, lambda es, s: ([], Proj(Tuple(*es), s)))
    El["tuple3-projection"] = (3, lambda es, s: ([], Proj(Tuple(*es), s)))
    # fields written in declared order (the other orders are the known finding C09-struct-literal-fields-in-declared-order)
    El["struct-field"] = (3, lambda es, s: ([], Field(Struct(S3, list(zip("abc", es))), "abc"[s])))
    El["array-index"] = (3, lambda es, s: ([], Call("array_get", Array(*es), Int(s))))
    El["match-tuple"] = (2, lambda es, s: ([], Match(Tuple(*es), [(PTuple(PVar("x0"), PVar("x1")), Var(xs[s]))])))
    El["match-struct"] = (3, lambda es, s: ([], Match(Struct(S3, list(zip("abc", es))), [(PStruct("S3", [(f, PVar(x)) for f, x in zip("abc", xs)]), Var(xs[s]))])))
    El["match-ctor"] = (2, lambda es, s: ([], Match(Ctor(E2, "K2", *es), [(PCtor("K2", PVar("x0"), PVar("x1")), Var(xs[s])), (PCtor("K0"), Int(0))])))
    El["let-tuple-pattern"] = (2, lambda es, s: ([Let(PTuple(*[PVar(x) if j == s else PWild for j, x in enumerate(xs[:2])]), Tuple(*es))], Var(xs[s])))
    return El


QUICK_SHAPES_ALL_ELIMS = ["d0:call", "d1:binary", "d2:if-binary"]
QUICK_ELIMS_ALL_SHAPES = ["tuple2-projection"]


def literal_elim_programs(tier):
    out = []
    Sh, El = _shapes(), _elims()
    for en, (n, build) in El.items():
        for sn, shape in Sh.items():
            if tier == "quick" and not (en in QUICK_ELIMS_ALL_SHAPES or sn in QUICK_SHAPES_ALL_ELIMS):
                continue
            stmts = [Let("c", Bool(True)), Let("k", Int(0)), Let("v", Int(7))]
            def use(es, s, how):
                pre, e = build(es, s)
                if how == "print":
                    stmts.extend(pre + [println(show_int(e))])
                elif how == "let":      # bound to a variable that is used later
                    stmts.extend(pre + [Let("r", e), println(show_int(Bin("+", Var("r"), Int(100))))])
                else:                     # value not used at all
                    stmts.extend(pre + [Do(e), println(Str("discarded"))])
            for s in range(n):
                # every component has the effect; the selected one is number s
                use([shape(j + 1, 10 * (j + 1)) for j in range(n)], s, "print")
            for s in range(n):
                # only the components that are NOT selected have it; the selected one is a variable / a literal
                use([Var("v") if j == s else shape(j + 1, 10 * (j + 1)) for j in range(n)], s, "let")
            for s in (0, n - 1):
                # only the selected component has it
                use([shape(j + 1, 10 * (j + 1)) if j == s else Int(j) for j in range(n)], s, "print")
            use([shape(j + 1, 10 * (j + 1)) for j in range(n)], n - 1, "discard")
            use([Var("v") if j == 0 else shape(j + 1, 10 * (j + 1)) for j in range(n)], 0, "discard")
            p = mk(("c09_lit_%s_%s" % (en, sn)).replace("-", "_").replace(":", "_"), stmts)
            out.append({"prog": p, "family": "c09-literal-elim", "ident": f"c09:literal-elim:{en}:{sn}"})
    return out
