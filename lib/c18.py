"""C18 — derived ToString / ToJson are total and faithful.

spec/Derive.tla prescribes both renderings on values (object per struct with fields in declared order; tag/fields per
variant; RFC 8259 string escaping; `Name { f: v }` / `Enum::Variant(v)`), and contains a JSON recogniser/decoder;
DeriveCheck.tla lets TLC check on ~900 values (all strings of length <= 2 over {a, ", \\, LF, TAB, 0x01, é, /, DEL}) that the
prescribed text is well-formed JSON and decodes back to the value.  The family derives both traits on structs/enums with
every primitive field type, nesting, recursion, field names equal to generated identifiers and strings containing each
special character; GomlSem.tla evaluates to_json/to_string with Derive.tla, GoSem.tla runs the compiler's derived code.
Types the derive cannot handle must be rejected by the derive stage itself."""
from common import *
import famcheck, fam_c18

LEVEL = "model_checking"


def run(tier, rep):
    build_harness()
    r = run_tlc("DeriveCheck", "DeriveCheck.cfg", workers=8, xmx="8g", timeout=1800, xss="256m")
    if not tlc_ok(r, "DeriveCheck"):
        rep.violation(f"model:DeriveCheck:{r.violated}", {"trace": r.trace[-1:]})
    progs = fam_c18.programs(tier)
    def same_meaning(exp, got):
        """outputs are lines; a to_json line may spell the same JSON value differently (\\u00e9 for é): the property asks for well-formed
        JSON that decodes back to the value, not for one spelling.  Non-JSON lines (to_string) must be equal byte for byte."""
        import json as _json
        a, b = exp.split(b"\n"), got.split(b"\n")
        if len(a) != len(b):
            return False
        for x, y in zip(a, b):
            if x == y:
                continue
            try:
                if _json.loads(x.decode("utf-8")) != _json.loads(y.decode("utf-8")):
                    return False
            except (ValueError, UnicodeDecodeError):
                return False
        return True
    cases, counts = famcheck.run_families("C18", rep, progs, "c18", goinvalid_is_violation=True, same_meaning=same_meaning)
    counts = {}
    for c_ in cases:
        counts[c_["cls"]] = counts.get(c_["cls"], 0) + 1
    late = 0
    for c in cases:
        if c["ident"].startswith("c18:underivable:") and c["cls"] == "rejected":
            stages = {d["stage"] for d in c["compile"].get("diags", [])}
            if c["compile"]["verdict"] != "lower" or stages != {"derive"}:
                late += 1
                rep.violation(c["ident"] + ":rejected-late", {"verdict": c["compile"]["verdict"], "stages": sorted(stages),
                                                              "diagnostics": [d["msg"] for d in c["compile"].get("diags", [])][:3]})
    rep.coverage["states"] += r.distinct
    rep.coverage["transitions"] += r.generated
    rep.coverage["traces_validated_against_impl"] = counts.get("agree", 0) + counts.get("differ", 0) + counts.get("rejected", 0)
    rep.coverage["values_checked_on_the_format"] = r.distinct
    rep.assumptions += famcheck.STD_ASSUMPTIONS + ["strings with quote/backslash/control characters are written through multi-line string literals (escapes in ordinary literals are not interpreted: C11 finding), so each contains a line feed"]
    if counts.get("agree", 0) < 15:
        raise ToolError("vacuity: fewer than 15 derive programs compared")
