"""Trace validation of the compiler's name supply (env.rs: Gensym) against spec/Gensym.tla through spec/GensymTrace.tla.
The hook in Gensym::gensym (--cfg goml_verif) reports every issued name; TLC consumes the events with Gensym.tla's Fresh
(one shared counter, never going back) and reports, per program, the names that were issued although the user had given a
function that very name (C19: no user-chosen name collides with a compiler temporary)."""
import os, re, threading
from common import *

PREFIXES = ("x", "mtmp", "_wild", "env", "t", "ret", "cond")
_shape = re.compile(r"^(%s)(\d+)$" % "|".join(PREFIXES))


def user_names(text):
    """function names of the program that have the shape of a generated name -> [[prefix, n], ..]"""
    out = []
    # top-level functions only: a method (a `fn` inside an impl / trait block) gets a name of its own shape in the Go text
    # (`_goml_inherent_T_T_m`), it does not share the temporaries' name space
    top, depth = [], 0
    for line in text.split("\n"):
        if depth == 0:
            top += re.findall(r"^\s*fn\s+([A-Za-z_]\w*)", line)
        depth += line.count("{") - line.count("}")
    for n in set(top):
        m = _shape.match(n)
        if m and len(m.group(2)) < 9 and str(int(m.group(2))) == m.group(2):
            out.append([m.group(1), int(m.group(2))])
    return sorted(out)


def validate(cases, rep, name, ident=lambda c: c.get("ident", c["id"])):
    need_feature("hooks")
    answers = gv_robust("compile", [{"id": str(c["id"]), "path": c["path"], "trace": ["gensym"]} for c in cases], extra=["--limit-ms", "60000"])
    recs, by = [], {}
    for c, a in zip(cases, answers):
        evs = [e for e in a.get("trace", []) if e.get("ev") == "gensym"]
        if not evs:
            continue
        try:
            text = open(c["path"], encoding="utf-8").read()
        except OSError:
            text = ""
        rec = [{"ev": "reset", "id": str(c["id"]), "user": user_names(text)}]
        rec += [{"ev": "gensym", "prefix": e["prefix"], "n": e["n"]} for e in evs]
        rec.append({"ev": "end", "id": str(c["id"]), "issued": len(evs)})
        recs.append(rec)
        by[str(c["id"])] = c
    if not recs:
        return {"programs": 0}
    shards = min(NCPU, max(1, len(recs) // 40))
    d = workdir(f"gensym-{name}-{os.getpid()}")
    chunks = [recs[i::shards] for i in range(shards)]
    results = [None] * shards

    def go(i):
        path = os.path.join(d, f"g{i}.ndjson")
        write_lines(path, [e for r in chunks[i] for e in r])
        try:
            results[i] = run_tlc("GensymTrace", "GensymTrace.cfg", env={"GENSYM": path}, workers=1, xmx="3g", timeout=1200, xss="256m", name=f"gensym-{name}-{i}")
        except ToolError as e:
            results[i] = e
    ths = [threading.Thread(target=go, args=(i,)) for i in range(shards)]
    [t.start() for t in ths]
    [t.join() for t in ths]
    stats = {"programs": len(recs), "names_issued": 0, "programs_with_a_function_named_like_a_temporary": sum(1 for r in recs if r[0]["user"]), "states": 0}
    for i, r in enumerate(results):
        if isinstance(r, Exception):
            raise r
        if r.violated:
            raise ToolError(f"GensymTrace: invariant {r.violated} violated on a real run: a name was issued twice")
        if r.rc != 0:
            raise ToolError(f"TLC GensymTrace shard {i} failed rc={r.rc}: " + (r.error or r.stdout[-1500:]))
        done = r.json_prints("GENSYMDONE")
        nev = sum(len(x) for x in chunks[i])
        if not done or done[0]["events"] != nev:
            raise ToolError("GensymTrace: the trace was not consumed to its end")
        stats["states"] += r.distinct
        for rj in r.json_prints("GENSYMREJECT"):
            rep.violation("gensym:trace-rejected", {"event": rj["ev"], "model_counter": rj["counter"]})
        for e in r.json_prints("GENSYMEND"):
            stats["names_issued"] += e["issued"]
            c = by[e["id"]]
            for cap in e["captured"]:
                rep.violation(f"gensym:issued-name-is-a-user-function:{cap[0]}", {"name": f"{cap[0]}{cap[1]}", "program": ident(c), "path": c.get("path")}, replay={"path": c.get("path")})
    return stats
