"""C17 family: every call form of a method, on every kind of receiver, must run the same code."""
from gast import *

S = TAdt("S")
E = TAdt("E")
BOXI = TAdt("Box", INT32)
BOXS = TAdt("Box", STRING)


def receivers():
    """name -> (type, value expr, `weight(self)` expr used by the method bodies)"""
    r = {}
    r["int32"] = (INT32, Int(5), Var("self"))
    r["string"] = (STRING, Str("abc"), Call("string_len", Var("self")))
    r["bool"] = (BOOL, Bool(True), If(Var("self"), Int(1), Int(0)))
    # literals of the other numeric types, incl. a float whose value is integral (Go prints 4.0 as 4)
    r["float64"] = (F64, Float(4, 1), If(Bin(">", Var("self"), Float(3, 1)), Int(6), Int(2)))
    r["float64-frac"] = (F64, Float(5, 2), If(Bin(">", Var("self"), Float(3, 1)), Int(6), Int(2)))
    f32 = lambda n, d: dict(Float(n, d, "float32"), suffix=True)
    r["float32"] = (F32, f32(8, 1), If(Bin(">", Var("self"), f32(3, 1)), Int(6), Int(2)))
    r["int64"] = (INT64, Int(9, "int64", suffix=True), If(Bin(">", Var("self"), Int(3, "int64", suffix=True)), Int(8), Int(2)))
    r["uint8"] = (UINT8, Int(200, "uint8", suffix=True), If(Bin(">", Var("self"), Int(100, "uint8", suffix=True)), Int(3), Int(2)))
    r["int8"] = (INT8, Int(5, "int8", suffix=True), If(Bin("<", Var("self"), Int(9, "int8", suffix=True)), Int(4), Int(2)))
    r["S"] = (S, Struct(S, [("a", Int(7)), ("b", Bool(False))]), Field(Var("self"), "a"))
    r["E"] = (E, Ctor(E, "B", Int(9)), Match(Var("self"), [(PCtor("A"), Int(0)), (PCtor("B", PVar("x")), Var("x"))]))
    r["Box[int32]"] = (BOXI, Struct(BOXI, [("v", Int(11))]), Field(Var("self"), "v"))
    r["Box[string]"] = (BOXS, Struct(BOXS, [("v", Str("wxyz"))]), Call("string_len", Field(Var("self"), "v")))
    return r


def decls(p):
    p.struct("S", [("a", INT32), ("b", BOOL)])
    p.enum("E", [("A", []), ("B", [INT32])])
    p.struct("Box", [("v", TParam("T"))], gens=["T"])
    p.trait("Tr", [("tm", [INT32], INT32)])


def programs(tier):
    out = []
    R = receivers()
    for rn, (ty, val, w) in R.items():
        tk = tykey(ty).lstrip("%")
        # ---- inherent: x.im(a) and T::im(x, a)
        if rn.startswith(("float", "int64", "uint8", "int8")):
            pass
        p = Program("c17_inh_" + rn.replace("[", "_").replace("]", "").replace("-", "_"))
        decls(p)
        p.impl(None, ty, [("im", [("self", ty), ("a", INT32)], INT32, Bin("+", Bin("*", w, Int(10)), Var("a")))])
        c1 = Call(f"inherent#{tk}#im", Var("v"), Int(3)); c1["form"] = "method"
        c2 = Call(f"inherent#{tk}#im", Var("v"), Int(3)); c2["form"] = "ufcs"
        # `T::im(x, a)` needs a path to the type: only nominal, non-generic types have one (int32::im / Box[int32]::im do not parse)
        forms = [println(show_int(c1))] + ([println(show_int(c2))] if rn in ("S", "E") else [])
        p.fn("main", [], UNIT, Block([Let("v", val, ty=ty)] + forms, Unit))
        out.append({"prog": p, "family": "c17", "ident": f"c17:inherent:{rn}"})
        # ---- trait: concrete UFCS, bounded generic by method and by UFCS, dyn (let coercion and argument coercion)
        p = Program("c17_trait_" + rn.replace("[", "_").replace("]", "").replace("-", "_"))
        decls(p)
        p.impl("Tr", ty, [("tm", [("self", ty), ("a", INT32)], INT32, Bin("+", Bin("*", w, Int(100)), Var("a")))])
        # a second impl on another type so that dispatch has something to get wrong
        other = INT32 if rn != "int32" else BOOL
        p.impl("Tr", other, [("tm", [("self", other), ("a", INT32)], INT32, Bin("-", Int(-1), Var("a")))])
        if rn == "Box[int32]":
            p.impl("Tr", BOXS, [("tm", [("self", BOXS), ("a", INT32)], INT32, Bin("-", Int(-7), Var("a")))])
        if rn == "Box[string]":
            p.impl("Tr", BOXI, [("tm", [("self", BOXI), ("a", INT32)], INT32, Bin("-", Int(-7), Var("a")))])
        Tp = TParam("T")
        p.fn("g_method", [("x", Tp)], INT32, TCall("Tr", "tm", Var("x"), Int(3), form="method"), gens=[("T", ["Tr"])])
        p.fn("g_ufcs", [("x", Tp)], INT32, TCall("Tr", "tm", Var("x"), Int(3)), gens=[("T", ["Tr"])])
        p.fn("via_dyn", [("d", TDyn("Tr"))], INT32, TCall("Tr", "tm", Var("d"), Int(3)))
        p.fn("main", [], UNIT, Block([
            Let("v", val, ty=ty),
            println(show_int(TCall("Tr", "tm", Var("v"), Int(3)))),
            println(show_int(Call("g_method", Var("v"), targs=[ty]))),
            println(show_int(Call("g_ufcs", Var("v"), targs=[ty]))),
            Let("d", ToDyn("Tr", Var("v")), ty=TDyn("Tr")),
            println(show_int(TCall("Tr", "tm", Var("d"), Int(3)))),
            println(show_int(Call("via_dyn", ToDyn("Tr", Var("v"))))),
        ], Unit))
        out.append({"prog": p, "family": "c17", "ident": f"c17:trait:{rn}"})
        # ---- literal coerced to dyn directly (no intermediate variable)
        if rn in ("int32", "string", "bool", "float64", "float64-frac", "float32", "int64", "uint8", "int8"):
            p = Program("c17_dynlit_" + rn.replace("-", "_"))
            decls(p)
            p.impl("Tr", ty, [("tm", [("self", ty), ("a", INT32)], INT32, Bin("+", Bin("*", w, Int(100)), Var("a")))])
            p.fn("via_dyn", [("d", TDyn("Tr"))], INT32, TCall("Tr", "tm", Var("d"), Int(3)))
            p.fn("main", [], UNIT, Block([Let("d", ToDyn("Tr", val), ty=TDyn("Tr")), println(show_int(TCall("Tr", "tm", Var("d"), Int(3)))),
                                          println(show_int(Call("via_dyn", ToDyn("Tr", val))))], Unit))
            out.append({"prog": p, "family": "c17", "ident": f"c17:dyn-literal:{rn}"})
    # ---- receiver type, trait and impl from another package
    lib = Program("lib")
    lib.struct("Lib::LS", [("a", INT32)])
    lib.impl("Lib::LT", TAdt("Lib::LS"), [("tm", [("self", TAdt("Lib::LS")), ("a", INT32)], INT32, Bin("+", Bin("*", Field(Var("self"), "a"), Int(100)), Var("a")))])
    lib.impl(None, TAdt("Lib::LS"), [("im", [("self", TAdt("Lib::LS")), ("a", INT32)], INT32, Bin("+", Bin("*", Field(Var("self"), "a"), Int(10)), Var("a")))])
    libtext = ("package Lib\n\nstruct LS { a: int32 }\ntrait LT { fn tm(Self, int32) -> int32; }\n"
               "impl LT for LS { fn tm(self: LS, a: int32) -> int32 { ((self.a * 100) + a) } }\n"
               "impl LS { fn im(self: LS, a: int32) -> int32 { ((self.a * 10) + a) } }\n")
    p = Program("c17_pkg")
    p.header = "package Main\nimport Lib\n"
    p.sem_only = [lib]
    LS = TAdt("Lib::LS")
    Tp = TParam("T")
    p.fn("g_method", [("x", Tp)], INT32, TCall("Lib::LT", "tm", Var("x"), Int(3), form="method"), gens=[("T", ["Lib::LT"])])
    p.fn("g_ufcs", [("x", Tp)], INT32, TCall("Lib::LT", "tm", Var("x"), Int(3)), gens=[("T", ["Lib::LT"])])
    p.fn("via_dyn", [("d", TDyn("Lib::LT"))], INT32, TCall("Lib::LT", "tm", Var("d"), Int(3)))
    ci = Call("inherent#Lib::LS#im", Var("v"), Int(3)); ci["form"] = "method"
    p.fn("main", [], UNIT, Block([
        Let("v", Struct(LS, [("a", Int(4))]), ty=LS),
        println(show_int(ci)),
        println(show_int(TCall("Lib::LT", "tm", Var("v"), Int(3)))),
        println(show_int(Call("g_method", Var("v"), targs=[LS]))),
        println(show_int(Call("g_ufcs", Var("v"), targs=[LS]))),
        Let("d", ToDyn("Lib::LT", Var("v")), ty=TDyn("Lib::LT")),
        println(show_int(TCall("Lib::LT", "tm", Var("d"), Int(3)))),
        println(show_int(Call("via_dyn", ToDyn("Lib::LT", Var("v"))))),
    ], Unit))
    out.append({"prog": p, "family": "c17", "ident": "c17:other-package", "extra_files": {"Lib/lib.gom": libtext}})

    # ---- an implementation is visible only through imports: Main reaches DataPkg::S (which implements TraitPkg::Show in DataPkg) as a
    # field of a struct of MakePkg; coercing it to dyn / calling the trait on it needs `import DataPkg` in Main
    trait_pkg = "package TraitPkg\n\ntrait Show {\n    fn show(Self) -> string;\n}\n"
    data_pkg = ("package DataPkg\nimport TraitPkg\n\nstruct S { n: int32 }\n\nimpl TraitPkg::Show for S {\n    fn show(self: S) -> string {\n"
                "        \"S(\" + int32_to_string(self.n) + \")\"\n    }\n}\n")
    make_pkg = ("package MakePkg\nimport DataPkg\n\nstruct Parcel { item: DataPkg::S, tag: string }\n\nfn parcel(n: int32) -> Parcel {\n"
                "    Parcel { item: DataPkg::S { n: n }, tag: \"p\" }\n}\nfn item_of(p: Parcel) -> DataPkg::S { p.item }\n")
    uses = {"dyn-coercion": "    let d: dyn TraitPkg::Show = item;\n    let _ = string_println(tag + TraitPkg::Show::show(d));\n",
            "concrete-call": "    let _ = string_println(tag + TraitPkg::Show::show(item));\n",
            "dyn-argument": "    let _ = string_println(tag + via(item));\n"}
    gets = {"struct-pattern": "    let MakePkg::Parcel { item: item, tag: tag } = p;\n",
            # (the type of a field read / a call result is not known yet where the coercion is checked: annotated, which needs the import)
            "field-read": "    let item: DataPkg::S = p.item;\n    let tag = p.tag;\n",
            "function-result": "    let item: DataPkg::S = MakePkg::item_of(p);\n    let tag = \"p\";\n"}
    for imported in (False, True):
        for uname, use in uses.items():
            for gname, get in gets.items():
                if not imported and gname != "struct-pattern":
                    continue          # the annotation would itself name the package that is not imported
                text = ("package Main\nimport TraitPkg\nimport MakePkg\n" + ("import DataPkg\n" if imported else "") + "\n"
                        "fn via(d: dyn TraitPkg::Show) -> string { TraitPkg::Show::show(d) }\n\nfn main() -> unit {\n"
                        "    let p: MakePkg::Parcel = MakePkg::parcel(3);\n" + get + use + "    ()\n}\n")
                tp = TextProgram(f"c17_vis_{int(imported)}_{uname}_{gname}".replace("-", "_"), text, ["pS(3)"])
                out.append({"prog": tp, "family": "c17:impl-visibility", "ident": f"c17:impl-visibility:{'imported' if imported else 'not-imported'}:{uname}:{gname}",
                            "extra_files": {"TraitPkg/lib.gom": trait_pkg, "DataPkg/lib.gom": data_pkg, "MakePkg/lib.gom": make_pkg},
                            "expect": "accept" if imported else "reject"})
    # ---- two implementations of one trait for one type in one package, under every spelling of the trait's name (plain, qualified
    # by the package itself), in both orders: always rejected - never "the later one wins"
    for first in ("Show", "Main::Show"):
        for second in ("Show", "Main::Show"):
            text = ("package Main\n\nstruct P { x: int32 }\n\ntrait Show {\n    fn show(Self) -> string;\n}\n\n"
                    f"impl {first} for P {{\n    fn show(self: P) -> string {{ \"first:\" + int32_to_string(self.x) }}\n}}\n\n"
                    f"impl {second} for P {{\n    fn show(self: P) -> string {{ \"second:\" + int32_to_string(self.x) }}\n}}\n\n"
                    "fn main() -> unit {\n    let p = P { x: 1 };\n    let _ = string_println(Show::show(p));\n    ()\n}\n")
            out.append({"prog": TextProgram(f"c17_dup_{first}_{second}".replace("::", "_"), text, []), "family": "c17:duplicate-impl",
                        "ident": f"c17:duplicate-impl:{first}+{second}", "expect": "reject"})
    for only in ("Show", "Main::Show"):
        text = ("package Main\n\nstruct P { x: int32 }\n\ntrait Show {\n    fn show(Self) -> string;\n}\n\n"
                f"impl {only} for P {{\n    fn show(self: P) -> string {{ \"only:\" + int32_to_string(self.x) }}\n}}\n\n"
                "fn main() -> unit {\n    let p = P { x: 1 };\n    let d: dyn Show = p;\n    let _ = string_println(Show::show(p));\n    let _ = string_println(Show::show(d));\n    ()\n}\n")
        out.append({"prog": TextProgram(f"c17_single_{only}".replace("::", "_"), text, ["only:1", "only:1"]), "family": "c17:duplicate-impl",
                    "ident": f"c17:single-impl:{only}", "expect": "accept"})
    # ---- every call form where the result is not used: the implementation must still run (once per evaluation)
    CN = TAdt("Counter")

    def effect_decls(p):
        p.struct("Counter", [("cell", TRef(INT32))])
        p.trait("Tick", [("tick", [], UNIT), ("get", [], INT32)])
        bump = Block([Do(Call("ref_set", Field(Var("self"), "cell"), Bin("+", Call("ref_get", Field(Var("self"), "cell")), Int(1))))], Unit)
        p.impl("Tick", CN, [("tick", [("self", CN)], UNIT, bump), ("get", [("self", CN)], INT32, Call("ref_get", Field(Var("self"), "cell")))])
        p.impl(None, CN, [("bump", [("self", CN)], UNIT, bump)])

    def form_call(form, recv):
        if form == "inh-method":
            c = Call("inherent#Counter#bump", recv); c["form"] = "method"; return c
        if form == "inh-ufcs":
            c = Call("inherent#Counter#bump", recv); c["form"] = "ufcs"; return c
        if form == "bound-method":
            return TCall("Tick", "tick", recv, form="method")
        return TCall("Tick", "tick", recv)          # concrete / bound-ufcs / dyn

    positions = ["stmt", "do", "while-tail", "if-tail", "match-tail", "fn-tail"]
    for form in ("inh-method", "inh-ufcs", "concrete", "bound-method", "bound-ufcs", "dyn"):
        for pos in positions:
            p = Program(f"c17_eff_{form}_{pos}".replace("-", "_"))
            effect_decls(p)
            pty = TParam("T") if form.startswith("bound") else (TDyn("Tick") if form == "dyn" else CN)
            gens = [("T", ["Tick"])] if form.startswith("bound") else []
            call = form_call(form, Var("x"))
            if pos == "stmt":
                body = Block([Stmt(call), Stmt(call)], Unit)
            elif pos == "do":
                body = Block([Do(call), Do(call)], Unit)
            elif pos == "while-tail":
                body = Block([Let("i", Call("ref", Int(0))),
                              Stmt(While(Bin("<", Call("ref_get", Var("i")), Int(2)),
                                         Block([Do(Call("ref_set", Var("i"), Bin("+", Call("ref_get", Var("i")), Int(1))))], call)))], Unit)
            elif pos == "if-tail":
                body = Block([Stmt(If(Var("b"), Block([], call), Block([], Unit))), Stmt(If(Var("b"), Block([], Unit), Block([], call)))], call)
            elif pos == "match-tail":
                body = Block([Stmt(Match(Var("b"), [(PBool(True), call), (PBool(False), Unit)]))], Match(Var("b"), [(PBool(False), Unit), (PWild, call)]))
            else:
                body = call
            p.fn("run", [("x", pty), ("b", BOOL)], UNIT, body, gens=gens)
            arg = ToDyn("Tick", Var("c")) if form == "dyn" else Var("c")
            p.fn("main", [], UNIT, Block([
                Let("c", Struct(CN, [("cell", Call("ref", Int(0)))]), ty=CN),
                Do(Call("run", arg, Bool(True), targs=([CN] if gens else []))),
                println(show_int(TCall("Tick", "get", Var("c")))),
            ], Unit))
            out.append({"prog": p, "family": "c17", "ident": f"c17:effect:{form}:{pos}"})
    # ---- `Tr2::m(d)` on a trait object of another trait: the impl of Tr2 for the type `dyn Tr`, never d's own vtable
    DT = TDyn("Show")
    def cross_decls(p, with_impl):
        p.struct("P", [("a", INT32)])
        p.trait("Show", [("name", [], INT32)])
        p.trait("Describe", [("name", [], INT32)])
        p.impl("Show", TAdt("P"), [("name", [("self", TAdt("P"))], INT32, Bin("+", Field(Var("self"), "a"), Int(1000)))])
        p.impl("Describe", TAdt("P"), [("name", [("self", TAdt("P"))], INT32, Bin("+", Field(Var("self"), "a"), Int(2000)))])
        if with_impl:
            p.impl("Describe", DT, [("name", [("self", DT)], INT32, Bin("+", TCall("Show", "name", Var("self")), Int(30000)))])
    p = Program("c17_cross_dyn")
    cross_decls(p, True)
    p.fn("g", [("x", TParam("T"))], INT32, TCall("Describe", "name", Var("x")), gens=[("T", ["Describe"])])
    p.fn("gm", [("x", TParam("T"))], INT32, TCall("Describe", "name", Var("x"), form="method"), gens=[("T", ["Describe"])])
    p.fn("main", [], UNIT, Block([
        Let("v", Struct(TAdt("P"), [("a", Int(7))]), ty=TAdt("P")),
        Let("d", ToDyn("Show", Var("v")), ty=DT),
        println(show_int(TCall("Show", "name", Var("d")))),
        println(show_int(TCall("Describe", "name", Var("v")))),
        println(show_int(TCall("Describe", "name", Var("d")))),
        println(show_int(Call("g", Var("d"), targs=[DT]))),
        println(show_int(Call("gm", Var("d"), targs=[DT]))),
    ], Unit))
    out.append({"prog": p, "family": "c17", "ident": "c17:cross-trait-dyn"})
    p = Program("c17_cross_dyn_no_impl")
    cross_decls(p, False)
    p.fn("main", [], UNIT, Block([
        Let("v", Struct(TAdt("P"), [("a", Int(7))]), ty=TAdt("P")),
        Let("d", ToDyn("Show", Var("v")), ty=DT),
        println(show_int(TCall("Describe", "name", Var("d")))),
    ], Unit))
    out.append({"prog": p, "family": "c17", "ident": "c17:cross-trait-dyn-without-impl", "expect": "reject"})
    # ---- two traits of the same short name from two packages, both implemented for one local type: every call form runs the
    # implementation of the trait it names
    p = Program("c17_same_trait_name_two_packages")
    p.header = "package Main\nimport LibA\nimport LibB\n"
    PP = TAdt("P")
    p.struct("P", [("a", INT32)])
    p.impl("LibA::Show", PP, [("show", [("self", PP)], INT32, Bin("+", Field(Var("self"), "a"), Int(100)))])
    p.impl("LibB::Show", PP, [("show", [("self", PP)], INT32, Bin("+", Field(Var("self"), "a"), Int(200)))])
    QQ = TAdt("Q")
    p.struct("Q", [("b", INT32)])
    p.impl("LibA::Show", QQ, [("show", [("self", QQ)], INT32, Bin("+", Field(Var("self"), "b"), Int(1000)))])
    p.impl("LibB::Show", QQ, [("show", [("self", QQ)], INT32, Bin("+", Field(Var("self"), "b"), Int(2000)))])
    Tq = TParam("T")
    p.fn("ga", [("x", Tq)], INT32, TCall("LibA::Show", "show", Var("x")), gens=[("T", ["LibA::Show"])])
    p.fn("gb", [("x", Tq)], INT32, TCall("LibB::Show", "show", Var("x")), gens=[("T", ["LibB::Show"])])
    p.fn("da", [("d", TDyn("LibA::Show"))], INT32, TCall("LibA::Show", "show", Var("d")))
    p.fn("db", [("d", TDyn("LibB::Show"))], INT32, TCall("LibB::Show", "show", Var("d")))
    p.fn("main", [], UNIT, Block([
        Let("v", Struct(PP, [("a", Int(5))]), ty=PP),
        println(show_int(TCall("LibA::Show", "show", Var("v")))), println(show_int(TCall("LibB::Show", "show", Var("v")))),
        println(show_int(Call("ga", Var("v"), targs=[PP]))), println(show_int(Call("gb", Var("v"), targs=[PP]))),
        println(show_int(Call("da", ToDyn("LibA::Show", Var("v"))))), println(show_int(Call("db", ToDyn("LibB::Show", Var("v"))))),
        Let("w", Struct(QQ, [("b", Int(7))]), ty=QQ),
        println(show_int(TCall("LibA::Show", "show", Var("w")))), println(show_int(TCall("LibB::Show", "show", Var("w")))),
        println(show_int(Call("ga", Var("w"), targs=[QQ]))), println(show_int(Call("db", ToDyn("LibB::Show", Var("w"))))),
    ], Unit))
    out.append({"prog": p, "family": "c17", "ident": "c17:same-trait-name-in-two-packages",
                "extra_files": {"LibA/lib.gom": "package LibA\n\ntrait Show { fn show(Self) -> int32; }\n", "LibB/lib.gom": "package LibB\n\ntrait Show { fn show(Self) -> int32; }\n"}})
    # the same two traits and a value coerced to `dyn` of ONE of them: the other trait's method on it needs an implementation of the
    # other trait for `dyn ..` (none: rejected; present: that implementation runs, not the vtable of the value's own trait) -
    # with both traits imported, and with one of them local to Main
    libs = {"LibA/lib.gom": "package LibA\n\ntrait Show { fn show(Self) -> int32; }\n", "LibB/lib.gom": "package LibB\n\ntrait Show { fn show(Self) -> int32; }\n"}
    for where, other, hdr, odecl in (("both-imported", "LibB::Show", "package Main\nimport LibA\nimport LibB\n", ""),
                                     ("one-local", "Show", "package Main\nimport LibA\n", "trait Show { fn show(Self) -> int32; }\n")):
        base = (hdr + "struct P { a: int32 }\n" + odecl + "impl LibA::Show for P { fn show(self: P) -> int32 { self.a + 100 } }\n"
                + f"impl {other} for P {{ fn show(self: P) -> int32 {{ self.a + 200 }} }}\n")
        main = (f"fn main() -> unit {{\n    let v: P = P {{ a: 5 }};\n    let d: dyn LibA::Show = v;\n    let _ = string_println(int32_to_string(LibA::Show::show(d)));\n"
                f"    let _ = string_println(int32_to_string({other}::show(d)));\n    ()\n}}\n")
        xf = {k: v for k, v in libs.items() if where == "both-imported" or k.startswith("LibA")}
        out.append({"prog": TextProgram(f"c17_same_name_cross_dyn_noimpl_{where}".replace("-", "_"), base + main, []), "family": "c17",
                    "ident": f"c17:same-trait-name-cross-dyn-without-impl:{where}", "expect": "reject", "extra_files": xf})
        if where == "both-imported":
            continue          # `impl LibB::Show for dyn LibA::Show` in Main is an orphan (neither side local): rightly rejected
        withimpl = base + f"impl {other} for dyn LibA::Show {{ fn show(self: dyn LibA::Show) -> int32 {{ 9000 + LibA::Show::show(self) }} }}\n"
        out.append({"prog": TextProgram(f"c17_same_name_cross_dyn_impl_{where}".replace("-", "_"), withimpl + main, ["105", "9105"]), "family": "c17",
                    "ident": f"c17:same-trait-name-cross-dyn-with-impl:{where}", "expect": "accept", "extra_files": xf})
    # ---- rejections: ambiguous method name under two bounds; dyn coercion without an implementation
    p = Program("c17_ambiguous")
    decls(p)
    p.trait("TA", [("m", [], INT32)])
    p.trait("TB", [("m", [], INT32)])
    p.impl("TA", S, [("m", [("self", S)], INT32, Int(1))])
    p.impl("TB", S, [("m", [("self", S)], INT32, Int(2))])
    p.fn("g", [("x", TParam("T"))], INT32, TCall("TA", "m", Var("x"), form="method"), gens=[("T", ["TA", "TB"])])
    p.fn("main", [], UNIT, Block([println(show_int(Call("g", Struct(S, [("a", Int(1)), ("b", Bool(True))]), targs=[S])))], Unit))
    out.append({"prog": p, "family": "c17", "ident": "c17:ambiguous-method-under-two-bounds", "expect": "reject"})
    # the unambiguous spellings of the same program must be accepted and pick the named trait
    for tr, val in (("TA", 1), ("TB", 2)):
        p = Program("c17_disamb_" + tr)
        decls(p)
        p.trait("TA", [("m", [], INT32)])
        p.trait("TB", [("m", [], INT32)])
        p.impl("TA", S, [("m", [("self", S)], INT32, Int(1))])
        p.impl("TB", S, [("m", [("self", S)], INT32, Int(2))])
        p.fn("g", [("x", TParam("T"))], INT32, TCall(tr, "m", Var("x")), gens=[("T", ["TA", "TB"])])
        p.fn("main", [], UNIT, Block([println(show_int(Call("g", Struct(S, [("a", Int(1)), ("b", Bool(True))]), targs=[S]))), println(show_int(TCall(tr, "m", Struct(S, [("a", Int(1)), ("b", Bool(True))]))))], Unit))
        out.append({"prog": p, "family": "c17", "ident": f"c17:disambiguated:{tr}", "expect": "accept"})
    # one method name defined in two inherent impl blocks of one type: rejected, not resolved to one of them
    p = Program("c17_method_in_two_blocks")
    decls(p)
    p.impl(None, S, [("dup", [("self", S)], INT32, Int(1))])
    p.impl(None, S, [("dup", [("self", S)], INT32, Int(2))])
    cd = Call("inherent#S#dup", Struct(S, [("a", Int(1)), ("b", Bool(True))])); cd["form"] = "ufcs"
    p.fn("main", [], UNIT, Block([println(show_int(cd))], Unit))
    out.append({"prog": p, "family": "c17", "ident": "c17:method-in-two-inherent-blocks", "expect": "reject"})
    p = Program("c17_dyn_without_impl")
    decls(p)
    p.impl("Tr", INT32, [("tm", [("self", INT32), ("a", INT32)], INT32, Var("a"))])
    p.fn("main", [], UNIT, Block([Let("d", ToDyn("Tr", Bool(True)), ty=TDyn("Tr")), println(show_int(TCall("Tr", "tm", Var("d"), Int(3))))], Unit))
    out.append({"prog": p, "family": "c17", "ident": "c17:dyn-coercion-without-impl", "expect": "reject"})
    # ---- a coercion to dyn whose (trait, type) pair occurs at ONE place of the program only: the walks that collect the vtables and
    # wrappers to emit must visit every construct a coercion can sit in
    def site_expr(site, E):
        if site == "match-default-arm":
            return Match(Var("k"), [(PInt(0), Int(1)), (PInt(1), Int(2)), (PWild, E)])
        if site == "match-literal-arm":
            return Match(Var("k"), [(PInt(7), E), (PWild, Int(2))])
        if site == "string-match-default":
            return Match(Call("int32_to_string", Var("k")), [(PStr("0"), Int(1)), (PWild, E)])
        if site == "string-match-literal-arm":
            return Match(Call("int32_to_string", Var("k")), [(PStr("7"), E), (PWild, Int(2))])
        if site == "enum-arm":
            return Match(Ctor(TAdt("E"), "B", Var("k")), [(PCtor("B", PVar("q")), E), (PCtor("A"), Int(0))])
        if site == "bool-arm":
            return Match(Bin("==", Var("k"), Int(7)), [(PBool(True), E), (PBool(False), Int(3))])
        if site == "tuple-arm":
            return Match(Tuple(Var("k"), Bool(True)), [(PTuple(PInt(7), PBool(True)), E), (PWild, Int(4))])
        if site == "if-then":
            return If(Bin("==", Var("k"), Int(7)), E, Int(5))
        if site == "if-else":
            return If(Bin("==", Var("k"), Int(0)), Int(6), E)
        if site == "while-body":
            return Block([Let("acc", Call("ref", Int(0))), Let("go_on", Call("ref", Bool(True))),
                          Do(While(Call("ref_get", Var("go_on")), Block([Do(Call("ref_set", Var("acc"), E)), Do(Call("ref_set", Var("go_on"), Bool(False)))], Unit)))], Call("ref_get", Var("acc")))
        if site == "while-condition":        # evaluated once: the condition is false at once
            return Block([Do(While(Bin(">", E, Int(100000)), Block([], Unit)))], Int(9))
        if site == "if-condition":
            return If(Bin(">", E, Int(500)), Int(1), Int(2))
        if site == "match-scrutinee":
            return Match(E, [(PInt(701), Int(1)), (PWild, Int(2))])
        if site == "right-operand":
            return Bin("+", Var("k"), E)
        if site == "closure-body":
            return Block([Let("c", Lam([("z", INT32)], Bin("+", E, Var("z"))))], CallV(Var("c"), Int(0)))
        if site == "closure-body-default-arm":
            return Block([Let("c", Lam([("z", INT32)], Match(Var("z"), [(PInt(1), Int(1)), (PWild, E)])))], CallV(Var("c"), Int(0)))
        if site == "nested-block":
            return Block([Let("u", Block([Let("w", E)], Var("w")))], Var("u"))
        if site == "call-argument":
            return Call("idi", E)
        if site == "tuple-element":
            return Proj(Tuple(Int(0), E), 1)
        raise ValueError(site)
    for site in ("match-default-arm", "match-literal-arm", "string-match-default", "string-match-literal-arm", "enum-arm", "bool-arm", "tuple-arm", "if-then", "if-else",
                 "while-body", "closure-body", "closure-body-default-arm", "nested-block", "call-argument", "tuple-element",
                 "while-condition", "if-condition", "match-scrutinee", "right-operand"):
        for how in ("inline", "annotated-let", "argument"):
            p = Program(f"c17_dynsite_{site.replace('-', '_')}_{how.replace('-', '_')}")
            decls(p)
            p.impl("Tr", TAdt("S"), [("tm", [("self", TAdt("S")), ("a", INT32)], INT32, Bin("+", Bin("*", Field(Var("self"), "a"), Int(100)), Var("a")))])
            p.fn("idi", [("x", INT32)], INT32, Var("x"))
            p.fn("via", [("d", TDyn("Tr")), ("a", INT32)], INT32, TCall("Tr", "tm", Var("d"), Var("a")))
            val = Struct(TAdt("S"), [("a", Var("k")), ("b", Bool(True))])
            if how == "inline":
                E = TCall("Tr", "tm", ToDyn("Tr", val), Int(1))
            elif how == "annotated-let":
                E = Block([Let("dd", ToDyn("Tr", val), ty=TDyn("Tr"))], TCall("Tr", "tm", Var("dd"), Int(1)))
            else:
                E = Call("via", ToDyn("Tr", val), Int(1))
            p.fn("run", [("k", INT32)], INT32, site_expr(site, E))
            p.fn("main", [], UNIT, Block([println(show_int(Call("run", Int(7)))), println(show_int(Call("run", Int(0)))), println(show_int(Call("run", Int(1))))], Unit))
            out.append({"prog": p, "family": "c17", "ident": f"c17:dyn-coercion-only-at:{site}:{how}"})
    return out
