"""Project (multi-package) source generator shared by C13–C16 drivers.

A package source is a deterministic function of (name, deps, interface-edit list, body-edit list), so a model
history (Artifacts.tla) maps to concrete files.  Interface edits only touch items that no dependent uses,
so every version of every package type-checks against every version of its dependencies; each edit yields an
interface content never seen before for that package (the model treats versions as injective)."""

IFACE_KINDS = ["addfn", "sig", "field", "variant", "traitmethod", "impl", "removefn", "reorderfields", "reordervariants", "bound"]
PERMS = [(0, 1, 2), (1, 0, 2), (1, 2, 0), (2, 1, 0), (2, 0, 1), (0, 2, 1)]
BODY_KINDS = ["const", "let", "rename"]
IMPL_TARGETS = ["int32", "bool", "string", "int8", "uint8", "int64"]


def pkg_source(name, deps, iedits=(), bedits=()):
    """iedits / bedits: sequences of kind labels applied in order."""
    p = name.lower()
    n = {k: 0 for k in IFACE_KINDS}
    for k in iedits:
        n[k] += 1
    nb = {k: 0 for k in BODY_KINDS}
    for k in bedits:
        nb[k] += 1
    L = [f"package {name}"]
    for d in sorted(deps):
        L.append(f"import {d}")
    L.append("")
    # (reorder edits change the ORDER of same-typed fields / of variants and nothing else: positions are part of what dependents
    # are compiled against, so the interface changed)
    base_f = ["a: int32", "b: int32", "c: int32"]
    fields = [base_f[i] for i in PERMS[n["reorderfields"] % 6]] + [f"f{i}: int32" for i in range(1, n["field"] + 1)]
    L.append(f"struct {name}S {{ " + ", ".join(fields) + " }")
    base_v = ["V0", "W0(int32)", "X0(int32)"]
    variants = [base_v[i] for i in PERMS[n["reordervariants"] % 6]] + [f"V{i}(int32)" for i in range(1, n["variant"] + 1)]
    L.append(f"enum {name}E {{ " + ", ".join(variants) + " }")
    methods = [f"m{i}" for i in range(0, n["traitmethod"] + 1)]
    L.append(f"trait {name}T {{")
    for m in methods:
        L.append(f"    fn {m}(Self) -> int32;")
    L.append("}")
    L.append(f"impl {name}T for {name}S {{")
    for m in methods:
        L.append(f"    fn {m}(self: {name}S) -> int32 {{ self.a }}")
    L.append("}")
    for i in range(n["impl"]):
        t = IMPL_TARGETS[i % len(IMPL_TARGETS)]
        L.append(f"impl {name}T for {t} {{")
        for m in methods:
            L.append(f"    fn {m}(self: {t}) -> int32 {{ {i + 1} }}")
        L.append("}")
    # (a bound edit adds one more trait to the bound of an exported generic function: the bound is part of its signature)
    for i in range(1, 5):
        L.append(f"trait {name}U{i} {{ fn u{i}(Self) -> int32; }}")
    L.append(f"fn {p}_gen[T: " + " + ".join([f"{name}T"] + [f"{name}U{i}" for i in range(1, min(n["bound"], 4) + 1)]) + "](x: T) -> int32 { 1 }")
    sig = ["x: int32"] + [f"y{i}: int32" for i in range(1, n["sig"] + 1)]
    L.append(f"fn {p}_sig(" + ", ".join(sig) + ") -> int32 { x }")
    for i in range(1, n["addfn"] + 1):
        L.append(f"fn {p}_extra{i}(x: int32) -> int32 {{ x }}")
    for i in range(n["removefn"] + 1, 5):
        L.append(f"fn {p}_rm{i}(x: int32) -> int32 {{ x }}")
    # the function dependents call; its *body* varies with body edits only
    const = 7 + 1000 * nb["const"] if nb["const"] else 7
    local = "v" if nb["rename"] == 0 else "v" + "q" * nb["rename"]
    body = [f"    let {local} = x + {const};"]
    for i in range(nb["let"]):
        body.append(f"    let pad{i} = {local} * {i + 2};")
    calls = "".join(f" + {d}::{d.lower()}_f(x)" for d in sorted(deps))
    body.append(f"    {local}{calls}")
    if name == "Main":
        L.append("fn main_f(x: int32) -> int32 {")
        L += body
        L.append("}")
        L.append("fn main() {")
        L.append("    let _ = string_println(int32_to_string(main_f(1)));")
        L.append("    ()")
        L.append("}")
    else:
        L.append(f"fn {p}_f(x: int32) -> int32 {{")
        L += body
        L.append("}")
    return "\n".join(L) + "\n"
