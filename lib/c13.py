"""C13 — compilation is deterministic and reproducible.

Model: spec/Discover.tla (discover_packages as a stack machine whose only nondeterminism is the order in which an
import *set* is enumerated; SortedQueue selects the HashSet design or the sorted design).  TLC checks Det on the
design and enumerates projects (import graphs) together with the discovery order the specification allows.

Binding: every project is compiled by the real pipeline in K separate processes whose std RandomState keys are
pinned to K different seeds (strace getrandom injection; the seed is the replay handle): the realised
discovery_order must be a behaviour of the model for that project, and Go text, all stage dumps, diagnostics
(order included) and interface files must be byte-identical across seeds.  The repository corpus is compiled
under the same seeds."""
import glob, hashlib, json, os, subprocess
import shutil
from common import *
import projgen


def seeds_for(k):
    base = seed()
    return [hashlib.md5(f"c13-{base}-{i}".encode()).hexdigest() for i in range(k)]


_strace_ok = None


def strace_available():
    global _strace_ok
    if _strace_ok is None:
        try:
            r = subprocess.run(["strace", "-o", "/dev/null", "-e", "trace=getrandom",
                                "--inject=getrandom:poke_exit=@arg1=00000000000000000000000000000001:when=2", "/bin/true"],
                               stdout=subprocess.PIPE, stderr=subprocess.PIPE, timeout=20)
            _strace_ok = r.returncode == 0
        except Exception:
            _strace_ok = False
    return _strace_ok


def pinned(cmd, s):
    if strace_available():
        return ["strace", "-o", "/dev/null", "-e", "trace=getrandom",
                f"--inject=getrandom:poke_exit=@arg1={s}:when=2"] + cmd
    return cmd   # fallback: a fresh process has fresh random keys (not replayable)


def run_seeded(requests, seeds):
    """One gv process per seed over all requests (inline mode = a single RandomState key pair per process)."""
    build_harness()
    inp = "\n".join(json.dumps(r) for r in requests) + "\n"
    procs = []
    for s in seeds:
        p = subprocess.Popen(pinned([GV, "compile", "--inline"], s), stdin=subprocess.PIPE, stdout=subprocess.PIPE,
                             stderr=subprocess.PIPE, text=True)
        procs.append(p)
    import threading
    res = [None] * len(seeds)

    def feed(i):
        o, e = procs[i].communicate(inp, timeout=3000)
        res[i] = (procs[i].returncode, o, e)
    ths = [threading.Thread(target=feed, args=(i,)) for i in range(len(seeds))]
    # at most NCPU concurrently
    for i in range(0, len(ths), NCPU):
        for t in ths[i:i + NCPU]:
            t.start()
        for t in ths[i:i + NCPU]:
            t.join()
    out = []
    for i, (rc, o, e) in enumerate(res):
        if rc != 0:
            raise ToolError(f"seeded gv run failed rc={rc}: {e[-1500:]}")
        lines = [json.loads(l) for l in o.splitlines() if l.strip()]
        if len(lines) != len(requests):
            raise ToolError("seeded gv run: answer count mismatch")
        out.append(lines)
    return out


def write_project(root, imports, exists, flavour=0):
    """imports: {pkg: [deps]}; layout root/main.gom and root/<P>/lib.gom"""
    os.makedirs(root, exist_ok=True)
    for p in exists:
        src = projgen.pkg_source(p, [d for d in imports[p] if True], projgen.IFACE_KINDS[:flavour], [])
        if p == "Main":
            path = os.path.join(root, "main.gom")
        else:
            os.makedirs(os.path.join(root, p), exist_ok=True)
            path = os.path.join(root, p, "lib.gom")
        with open(path, "w") as f:
            f.write(src)
    return os.path.join(root, "main.gom")


ERR_PROJECTS = {
    # two reported items each, so that diagnostic *order* is exercised
    "two_type_errors": {"main.gom": "package Main\nimport A\nimport B\nfn f() -> int32 { true }\nfn g() -> bool { 1 }\nfn main() { let _ = A::fa(1); let _ = B::fb(1); () }\n",
                        "A/lib.gom": "package A\nfn fa(x: int32) -> int32 { \"s\" }\n",
                        "B/lib.gom": "package B\nfn fb(x: int32) -> int32 { false }\n"},
    "two_missing_packages": {"main.gom": "package Main\nimport P\nimport Q\nimport R\nfn main() { () }\n"},
    "two_missing_trait_methods": {"main.gom": "package Main\ntrait T { fn a(Self) -> int32; fn b(Self) -> int32; fn c(Self) -> int32; }\nstruct S {}\nstruct U {}\nimpl T for S { }\nimpl T for U { }\nfn main() { () }\n"},
    # names that several declarations could answer to: whatever the compiler decides, it decides the same in every process
    "variant_in_two_enums": {"main.gom": "package Main\nenum Shape { Circle, Square }\nenum Token { Circle, Dash }\ntrait D { fn d(Self) -> string; }\n"
                                         "impl D for Shape { fn d(self: Shape) -> string { \"shape\" } }\nimpl D for Token { fn d(self: Token) -> string { \"token\" } }\n"
                                         "fn main() -> unit {\n    let c = Circle;\n    let _ = string_println(D::d(c));\n    let n = match c { Circle => 1, _ => 0 };\n    ()\n}\n"},
    "variant_in_three_enums_with_payload": {"main.gom": "package Main\nenum A1 { Mk(int32), Z1 }\nenum A2 { Mk(int32), Z2 }\nenum A3 { Mk(int32), Z3 }\n"
                                                        "fn main() -> unit {\n    let v = Mk(1);\n    let w = Mk(2);\n    let n = match v { Mk(k) => k, _ => 0 };\n    let _ = string_println(int32_to_string(n));\n    ()\n}\n"},
    "method_in_two_traits": {"main.gom": "package Main\ntrait TA { fn m(Self) -> int32; }\ntrait TB { fn m(Self) -> int32; }\nstruct S { v: int32 }\n"
                                         "impl TA for S { fn m(self: S) -> int32 { 1 } }\nimpl TB for S { fn m(self: S) -> int32 { 2 } }\n"
                                         "fn g[T: TA + TB](x: T) -> int32 { x.m() }\nfn main() -> unit {\n    let s = S { v: 0 };\n    let _ = string_println(int32_to_string(s.m() + g(s)));\n    ()\n}\n"},
    "field_in_two_structs": {"main.gom": "package Main\nstruct P { x: int32, y: int32 }\nstruct Q { x: string, z: bool }\n"
                                         "fn main() -> unit {\n    let f = |p| p.x;\n    let g = |q| q.z;\n    let _ = string_println(int32_to_string(f(P { x: 1, y: 2 })));\n    ()\n}\n"},
    "same_names_in_two_imports": {"main.gom": "package Main\nimport A\nimport B\nfn main() -> unit {\n    let _ = string_println(int32_to_string(A::pick() + B::pick()));\n    let c = Red;\n    let m = mk();\n    ()\n}\n",
                                  "A/lib.gom": "package A\nenum Col { Red, Blue }\nfn pick() -> int32 { 1 }\nfn mk() -> int32 { 1 }\n",
                                  "B/lib.gom": "package B\nenum Hue { Red, Green }\nfn pick() -> int32 { 2 }\nfn mk() -> int32 { 2 }\n"},
    "unresolved_names": {"main.gom": "package Main\nfn main() { let _ = aa1; let _ = bb2; let _ = cc3; let _ = dd4; () }\n"},
    "dup_impls_across_packages": {"main.gom": "package Main\nimport A\nimport B\nimport C\nfn main() { () }\n",
                                  "A/lib.gom": "package A\ntrait T { fn m(Self) -> int32; }\n",
                                  "B/lib.gom": "package B\nimport A\nimpl A::T for int32 { fn m(self: int32) -> int32 { 1 } }\nimpl A::T for bool { fn m(self: bool) -> int32 { 1 } }\n",
                                  "C/lib.gom": "package C\nimport A\nimpl A::T for int32 { fn m(self: int32) -> int32 { 2 } }\nimpl A::T for bool { fn m(self: bool) -> int32 { 2 } }\n"},
}


def obs_of(ans):
    """Everything C13 says must be byte-identical."""
    o = {k: ans.get(k) for k in ("verdict", "go", "core", "mono", "lift", "anf", "tast", "hir", "ast")}
    o["diags"] = [(d["stage"], d["msg"], d["s"], d["e"]) for d in ans.get("diags", [])]
    if ans.get("verdict") == "panic":
        o["panic"] = ans.get("at")
    return o


def first_diff(a, b):
    for k in a:
        if a[k] != b[k]:
            x, y = a[k], b[k]
            if isinstance(x, str) and isinstance(y, str):
                xl, yl = x.splitlines(), y.splitlines()
                for i in range(min(len(xl), len(yl))):
                    if xl[i] != yl[i]:
                        return k, f"line {i+1}: {xl[i][:100]!r} vs {yl[i][:100]!r}"
                return k, f"length {len(xl)} vs {len(yl)} lines"
            return k, f"{str(x)[:200]} vs {str(y)[:200]}"
    return None, None


def run(tier, rep):
    build_harness()
    K = 6 if tier == "quick" else 32
    seeds = seeds_for(K)
    rnd = rng(13)
    # ---- 1. the design: Det holds for the sorted design on all import graphs (<= 3 other packages, <= 6 edges)
    r = run_tlc("MCDiscover", "Discover_sorted.cfg", workers=8, xmx="8g", coverage=True, timeout=1800)
    if not tlc_ok(r, "Discover_sorted"):
        rep.violation(f"model:Discover_sorted:{r.violated}", {"trace": r.trace[-5:]})
    states, trans, cover = r.distinct, r.generated, dict(r.coverage)
    for a in ("Pop", "Finish"):
        if cover.get(a, 0) == 0:
            raise ToolError(f"vacuity: Discover action {a} never taken")
    # negative control on the model itself: with HashSet iteration TLC must find a Det counterexample
    r2 = run_tlc("MCDiscover", "Discover_hashset.cfg", workers=8, xmx="8g", timeout=1800)
    if r2.violated != "Det":
        raise ToolError("model self-test: Discover with HashSet iteration did not violate Det")
    # ---- 2. projects and allowed orders from the model
    r3 = run_tlc("MCDiscover", "Discover_emit_sorted.cfg", workers=4, xmx="8g", timeout=1800)
    if r3.rc != 0:
        raise ToolError("Discover emit failed: " + (r3.error or r3.stdout[-1500:]))
    allowed = {}
    for rec in r3.json_prints("ORDER"):
        imp = {p: sorted(v) for p, v in rec["imports"].items()}
        if sorted(rec["exists"]) != sorted(imp.keys()):
            continue   # projects with missing directories are C16's business
        key = json.dumps(imp, sort_keys=True)
        allowed.setdefault(key, set()).add(tuple(rec["order"]))
    keys = sorted(allowed)
    def interesting(k):
        imp = json.loads(k)
        return max(len(v) for v in imp.values()) >= 2
    inter = [k for k in keys if interesting(k)]
    rnd.shuffle(inter)
    nproj = 40 if tier == "quick" else 400
    chosen = inter[:nproj]
    root = workdir("c13")
    reqs = []
    meta = []
    for i, k in enumerate(chosen):
        imp = json.loads(k)
        path = write_project(os.path.join(root, f"g{i}"), imp, list(imp.keys()), flavour=i % 4)
        reqs.append({"id": f"g{i}", "path": path, "dumps": True, "disc": True})
        meta.append(("graph", k))
    for name, files in ERR_PROJECTS.items():
        d = os.path.join(root, "err_" + name)
        for rel, txt in files.items():
            os.makedirs(os.path.dirname(os.path.join(d, rel)), exist_ok=True)
            open(os.path.join(d, rel), "w").write(txt)
        reqs.append({"id": "err_" + name, "path": os.path.join(d, "main.gom"), "dumps": True, "disc": False})
        meta.append(("err", name))
    for d in sorted(glob.glob(os.path.join(CORPUS, "*"))) + sorted(glob.glob(os.path.join(PKG_CORPUS, "*"))):
        if os.path.exists(os.path.join(d, "main.gom")):
            reqs.append({"id": "corpus_" + os.path.basename(d), "path": os.path.join(d, "main.gom"), "dumps": True, "disc": False})
            meta.append(("corpus", os.path.basename(d)))
    answers = run_seeded(reqs, seeds)
    compared = 0
    differing = 0
    orders_checked = 0
    for j, rq in enumerate(reqs):
        kind, info = meta[j]
        base = obs_of(answers[0][j])
        for si in range(1, K):
            o = obs_of(answers[si][j])
            compared += 1
            if o != base:
                differing += 1
                what, where = first_diff(base, o)
                ident = f"nondeterministic:{what}:{kind}" + (":" + info if kind != "graph" else "")
                rep.violation(ident, {"project": rq["id"], "seed_a": seeds[0], "seed_b": seeds[si], "first_difference": where,
                                      "imports": json.loads(info) if kind == "graph" else info},
                              replay={"request": rq, "seeds": [seeds[0], seeds[si]]})
                break
        if kind == "graph":
            for si in range(K):
                d = answers[si][j].get("discovery") or {}
                if "order" in d:
                    orders_checked += 1
                    if tuple(d["order"]) not in allowed[info]:
                        rep.violation("discovery-order-not-a-model-behaviour",
                                      {"project": rq["id"], "imports": json.loads(info), "seed": seeds[si], "realised": d["order"],
                                       "model_allows": sorted(allowed[info])},
                                      replay={"request": rq, "seeds": [seeds[si]]})
                        break
        if j < 3:
            rep.sample({"project": rq["id"], "kind": kind, "imports": json.loads(info) if kind == "graph" else info,
                        "verdict": answers[0][j]["verdict"], "discovery": answers[0][j].get("discovery"),
                        "go_sha": hashlib.sha1((answers[0][j].get("go") or "").encode()).hexdigest()[:12]})
    # ---- 2b. the order in which the file system enumerates a package's files must not matter: the same multi-file project is
    # written twice with the files created in opposite orders (on tmpfs readdir follows creation order) and compiled
    files = {
        "main.gom": "package Main\nimport Shape\n\nfn main() {\n    let p = Shape::make(3, 4);\n    let _ = string_println(show(twice(Shape::sum(p))) + show(inc(Shape::norm(p))));\n    ()\n}\n",
        "arith.gom": "package Main\n\nfn twice(x: int32) -> int32 { x * 2 }\nfn inc(x: int32) -> int32 { let one = 1; x + one }\n",
        "show.gom": "package Main\n\nfn show(x: int32) -> string { let s = int32_to_string(x); s + \";\" }\n",
        "zeta.gom": "package Main\n\nfn unused_z(x: int32) -> int32 { match x { 0 => 1, _ => x } }\n",
        "Shape/point.gom": "package Shape\n\nstruct Point { x: int32, y: int32 }\nfn make(x: int32, y: int32) -> Point { Point { x: x, y: y } }\n",
        "Shape/ops.gom": "package Shape\n\nfn sum(p: Point) -> int32 { p.x + p.y }\nfn norm(p: Point) -> int32 { let a = p.x * p.x; a + p.y * p.y }\n",
        "Shape/alpha.gom": "package Shape\n\nfn origin() -> Point { make(0, 0) }\n",
    }
    base_dir = "/dev/shm" if os.path.isdir("/dev/shm") and os.access("/dev/shm", os.W_OK) else root
    copies = []
    for ci, order in enumerate((sorted(files), sorted(files, reverse=True))):
        d = os.path.join(base_dir, f"verif-c13-readdir-{os.getpid()}-{ci}")
        shutil.rmtree(d, ignore_errors=True)
        os.makedirs(os.path.join(d, "Shape"))
        for rel in order:
            open(os.path.join(d, rel), "w").write(files[rel])
        copies.append(d)
    try:
        listings = [[sorted(os.listdir(d)) == os.listdir(d), os.listdir(d), os.listdir(os.path.join(d, "Shape"))] for d in copies]
        ans = gv("compile", [{"id": ci, "path": os.path.join(d, "main.gom"), "dumps": True} for ci, d in enumerate(copies)])
        obs = []
        for d, a in zip(copies, ans):
            o = obs_of(a)
            obs.append(json.loads(json.dumps(o).replace(d, "<root>")))
        if obs[0] != obs[1]:
            what, where = first_diff(obs[0], obs[1])
            rep.violation(f"depends-on-directory-enumeration-order:{what}", {"first_difference": where, "enumeration_copy_0": listings[0][1:], "enumeration_copy_1": listings[1][1:]},
                          replay={"files": files})
        if obs[0]["verdict"] != "ok":
            raise ToolError("readdir project does not compile: " + str(ans[0].get("diags"))[:300])
        rep.coverage["directory_enumeration_orders_differ_between_copies"] = listings[0][1:] != listings[1][1:]
    finally:
        for d in copies:
            shutil.rmtree(d, ignore_errors=True)
    # ---- 3. interface files under seeds (CLI check of a package with several imports)
    build_cli()
    iface_compared = 0
    proj = os.path.join(root, "iface")
    imp = {"A": [], "B": [], "C": [], "D": ["A", "B", "C"]}
    os.makedirs(proj + "/src", exist_ok=True)
    for p in imp:
        open(f"{proj}/src/{p}.gom", "w").write(projgen.pkg_source(p, imp[p], projgen.IFACE_KINDS, []))
    blobs = {}
    for si, s in enumerate(seeds):
        out = f"{proj}/out{si}"
        os.makedirs(out, exist_ok=True)
        for p in ("A", "B", "C", "D"):
            rr = subprocess.run(pinned([CLI, "build", "--package", p, "--input", f"{proj}/src/{p}.gom", "--interface-path", out,
                                        "--output", f"{out}/{p}"], s), stdout=subprocess.PIPE, stderr=subprocess.PIPE, text=True)
            if rr.returncode != 0:
                raise ToolError("iface build failed: " + rr.stderr[-500:])
            for ext in ("interface", "core"):
                b = open(f"{out}/{p}.{ext}").read().replace(out, "OUT")
                iface_compared += 1
                if blobs.setdefault((p, ext), b) != b:
                    rep.violation(f"nondeterministic:{ext}-file", {"package": p, "seed": s}, replay={"seeds": [seeds[0], s]})
    rep.coverage.update({
        "states": states + r2.distinct + r3.distinct, "transitions": trans + r2.generated + r3.generated,
        "traces_validated_against_impl": orders_checked,
        "action_coverage": cover, "seeds": K, "seed_pinning": "strace getrandom injection" if strace_available() else "fresh processes (strace unavailable)",
        "projects": len(reqs), "pairwise_comparisons": compared, "differing": differing,
        "artifact_files_compared": iface_compared, "model_projects": len(keys),
    })
    rep.assumptions += [
        "the only uncontrolled nondeterminism of the compiler is std RandomState (pinned per process by seed); the file system enumerates directories in a fixed order here, and read_gom_sources sorts",
        "K seeds sample the hash-order space; with 3 imports all 6 iteration orders appear with probability > 0.99 at K = 32",
    ]
