"""C13 — compilation is deterministic and reproducible.

Model: spec/Discover.tla (discover_packages as a stack machine whose only nondeterminism is the order in which an
import *set* is enumerated; SortedQueue selects the HashSet design or the sorted design).  TLC checks Det on the
design and enumerates projects (import graphs) together with the discovery order the specification allows.

Binding: every project is compiled by the real pipeline in K separate processes whose std RandomState keys are
pinned to K different seeds (strace getrandom injection; the seed is the replay handle): the realised
discovery_order must be a behaviour of the model for that project, and Go text, all stage dumps, diagnostics
(order included) and interface files must be byte-identical across seeds.  The repository corpus is compiled
under the same seeds."""
import glob, hashlib, json, os, subprocess
import shutil
from common import *
import projgen


def seeds_for(k):
    base = seed()
    return [hashlib.md5(f"c13-{base}-{i}".encode()).hexdigest() for i in range(k)]


_strace_ok = None


def strace_available():
    global _strace_ok
    if _strace_ok is None:
        try:
            r = subprocess.run(["strace", "-o", "/dev/null", "-e", "trace=getrandom",
                                "--inject=getrandom:poke_exit=@arg1=00000000000000000000000000000001:when=2", "/bin/true"],
                               stdout=subprocess.PIPE, stderr=subprocess.PIPE, timeout=20)
            _strace_ok = r.returncode == 0
        except Exception:
            _strace_ok = False
    return _strace_ok


def pinned(cmd, s):
    if strace_available():
        return ["strace", "-o", "/dev/null", "-e", "trace=getrandom",
                f"--inject=getrandom:poke_exit=@arg1={s}:when=2"] + cmd
    return cmd   # fallback: a fresh process has fresh random keys (not replayable)


def run_seeded(requests, seeds):
    """One gv process per seed over all requests (inline mode = a single RandomState key pair per process)."""
    build_harness()
    inp = "\n".join(json.dumps(r) for r in requests) + "\n"
    procs = []
    for s in seeds:
        p = subprocess.Popen(pinned([GV, "compile", "--inline"], s), stdin=subprocess.PIPE, stdout=subprocess.PIPE,
                             stderr=subprocess.PIPE, text=True)
        procs.append(p)
    import threading
    res = [None] * len(seeds)

    def feed(i):
        o, e = procs[i].communicate(inp, timeout=3000)
        res[i] = (procs[i].returncode, o, e)
    ths = [threading.Thread(target=feed, args=(i,)) for i in range(len(seeds))]
    # at most NCPU concurrently
    for i in range(0, len(ths), NCPU):
        for t in ths[i:i + NCPU]:
            t.start()
        for t in ths[i:i + NCPU]:
            t.join()
    out = []
    for i, (rc, o, e) in enumerate(res):
        if rc != 0:
            raise ToolError(f"seeded gv run failed rc={rc}: {e[-1500:]}")
        lines = [json.loads(l) for l in o.splitlines() if l.strip()]
        if len(lines) != len(requests):
            raise ToolError("seeded gv run: answer count mismatch")
        out.append(lines)
    return out


def write_project(root, imports, exists, flavour=0):
    """imports: {pkg: [deps]}; layout root/main.gom and root/<P>/lib.gom"""
    os.makedirs(root, exist_ok=True)
    for p in exists:
        src = projgen.pkg_source(p, [d for d in imports[p] if True], projgen.IFACE_KINDS[:flavour], [])
        if p == "Main":
            path = os.path.join(root, "main.gom")
        else:
            os.makedirs(os.path.join(root, p), exist_ok=True)
            path = os.path.join(root, p, "lib.gom")
        with open(path, "w") as f:
            f.write(src)
    return os.path.join(root, "main.gom")


# accepted programs in which every table the compiler keeps has five or more entries (externs of five Go packages, extern types,
# structs, enums, traits, impls, generic instances, closures, tuple / array / Ref helper types, dyn pairs, derives): whatever is
# iterated in hash order somewhere shows up as a different text under another seed
def _wide():
    gos = [("strings", "ToUpper", "(s: string) -> string"), ("os", "Getenv", "(s: string) -> string"), ("path", "Base", "(s: string) -> string"),
           ("html", "EscapeString", "(s: string) -> string"), ("strconv", "Quote", "(s: string) -> string"), ("unicode/utf8", "RuneCountInString", "(s: string) -> int32")]
    L = ["package Main", ""]
    for i, (pkg, fn_, sig) in enumerate(gos):
        L.append(f'extern "go" "{pkg}" "{fn_}" ext{i}{sig}')
    names = ["Alpha", "Beta", "Gamma", "Delta", "Eps", "Zeta"]
    for i, n in enumerate(names):
        L.append(f"#[derive(ToString, ToJson)]\nstruct {n} {{ v{i}: int32, w{i}: string }}")
        L.append(f"enum {n}E {{ {n}A, {n}B(int32), {n}C({n}) }}")
        L.append(f"trait {n}T {{ fn {n.lower()}_m(Self) -> int32; }}")
    for i, n in enumerate(names):
        for j, m in enumerate(names):
            if (i + j) % 2 == 0:
                L.append(f"impl {n}T for {m} {{ fn {n.lower()}_m(self: {m}) -> int32 {{ self.v{j} + {i} }} }}")
    L.append("enum Opt[T] { Non, Som(T) }\nfn idg[T](x: T) -> T { x }\nfn pairg[A, B](a: A, b: B) -> (A, B) { (a, b) }")
    L.append("fn main() -> unit {")
    for i, n in enumerate(names):
        L.append(f"    let s{i} = {n} {{ v{i}: {i}, w{i}: ext{i % 5}(\"x{i}\") }};")
        L.append(f"    let d{i}: dyn {n}T = s{i};")
        L.append(f"    let c{i} = |k: int32| k + s{i}.v{i} + {n}T::{n.lower()}_m(d{i});")
        L.append(f"    let o{i} = idg(Opt::Som(s{i}));")
        L.append(f"    let t{i} = pairg(s{i}, ({i}, [c{i}({i}), {i}], ref({n}E::{n}B({i}))));")
        L.append(f"    let _ = string_println(s{i}.to_string() + s{i}.to_json() + int32_to_string(c{i}(1)));")
    L.append("    let _ = string_println(int32_to_string(ext5(\"abc\")));")
    L.append("    ()\n}")
    return "\n".join(L) + "\n"


WIDE_PROJECTS = {"wide_tables": {"main.gom": _wide()},
                 "externs_of_six_go_packages": {"main.gom": "package Main\n\n" + "".join(f'extern "go" "{p_}" "{f_}" e{i}(s: string) -> string\n' for i, (p_, f_) in enumerate(
                     [("strings", "ToUpper"), ("os", "Getenv"), ("path", "Base"), ("html", "EscapeString"), ("strconv", "Quote"), ("net/url", "QueryEscape")]))
                     + "fn main() -> unit {\n    let _ = string_println(e0(e1(e2(e3(e4(e5(\"a\")))))));\n    ()\n}\n"}}
ERR_PROJECTS = {
    # two reported items each, so that diagnostic *order* is exercised
    "two_type_errors": {"main.gom": "package Main\nimport A\nimport B\nfn f() -> int32 { true }\nfn g() -> bool { 1 }\nfn main() { let _ = A::fa(1); let _ = B::fb(1); () }\n",
                        "A/lib.gom": "package A\nfn fa(x: int32) -> int32 { \"s\" }\n",
                        "B/lib.gom": "package B\nfn fb(x: int32) -> int32 { false }\n"},
    "two_missing_packages": {"main.gom": "package Main\nimport P\nimport Q\nimport R\nfn main() { () }\n"},
    "two_missing_trait_methods": {"main.gom": "package Main\ntrait T { fn a(Self) -> int32; fn b(Self) -> int32; fn c(Self) -> int32; }\nstruct S {}\nstruct U {}\nimpl T for S { }\nimpl T for U { }\nfn main() { () }\n"},
    # names that several declarations could answer to: whatever the compiler decides, it decides the same in every process
    "variant_in_two_enums": {"main.gom": "package Main\nenum Shape { Circle, Square }\nenum Token { Circle, Dash }\ntrait D { fn d(Self) -> string; }\n"
                                         "impl D for Shape { fn d(self: Shape) -> string { \"shape\" } }\nimpl D for Token { fn d(self: Token) -> string { \"token\" } }\n"
                                         "fn main() -> unit {\n    let c = Circle;\n    let _ = string_println(D::d(c));\n    let n = match c { Circle => 1, _ => 0 };\n    ()\n}\n"},
    "variant_in_three_enums_with_payload": {"main.gom": "package Main\nenum A1 { Mk(int32), Z1 }\nenum A2 { Mk(int32), Z2 }\nenum A3 { Mk(int32), Z3 }\n"
                                                        "fn main() -> unit {\n    let v = Mk(1);\n    let w = Mk(2);\n    let n = match v { Mk(k) => k, _ => 0 };\n    let _ = string_println(int32_to_string(n));\n    ()\n}\n"},
    "method_in_two_traits": {"main.gom": "package Main\ntrait TA { fn m(Self) -> int32; }\ntrait TB { fn m(Self) -> int32; }\nstruct S { v: int32 }\n"
                                         "impl TA for S { fn m(self: S) -> int32 { 1 } }\nimpl TB for S { fn m(self: S) -> int32 { 2 } }\n"
                                         "fn g[T: TA + TB](x: T) -> int32 { x.m() }\nfn main() -> unit {\n    let s = S { v: 0 };\n    let _ = string_println(int32_to_string(s.m() + g(s)));\n    ()\n}\n"},
    "field_in_two_structs": {"main.gom": "package Main\nstruct P { x: int32, y: int32 }\nstruct Q { x: string, z: bool }\n"
                                         "fn main() -> unit {\n    let f = |p| p.x;\n    let g = |q| q.z;\n    let _ = string_println(int32_to_string(f(P { x: 1, y: 2 })));\n    ()\n}\n"},
    "same_names_in_two_imports": {"main.gom": "package Main\nimport A\nimport B\nfn main() -> unit {\n    let _ = string_println(int32_to_string(A::pick() + B::pick()));\n    let c = Red;\n    let m = mk();\n    ()\n}\n",
                                  "A/lib.gom": "package A\nenum Col { Red, Blue }\nfn pick() -> int32 { 1 }\nfn mk() -> int32 { 1 }\n",
                                  "B/lib.gom": "package B\nenum Hue { Red, Green }\nfn pick() -> int32 { 2 }\nfn mk() -> int32 { 2 }\n"},
    "unresolved_names": {"main.gom": "package Main\nfn main() { let _ = aa1; let _ = bb2; let _ = cc3; let _ = dd4; () }\n"},
    "dup_impls_across_packages": {"main.gom": "package Main\nimport A\nimport B\nimport C\nfn main() { () }\n",
                                  "A/lib.gom": "package A\ntrait T { fn m(Self) -> int32; }\n",
                                  "B/lib.gom": "package B\nimport A\nimpl A::T for int32 { fn m(self: int32) -> int32 { 1 } }\nimpl A::T for bool { fn m(self: bool) -> int32 { 1 } }\n",
                                  "C/lib.gom": "package C\nimport A\nimpl A::T for int32 { fn m(self: int32) -> int32 { 2 } }\nimpl A::T for bool { fn m(self: bool) -> int32 { 2 } }\n"},
}



# ----------------------------------------------------------------------------------------------------------------------
# Family "derive-both": one type derives BOTH ToString and ToJson.  Dimensions: kind of item (struct, enum, one type built
# from another, generic struct / enum / both: derive reports diagnostics, two per type) x spelling of the request (one
# attribute, one attribute with the traits the other way round, two stacked attributes in either order).  Whatever order the
# compiler generates the two impl blocks / reports the two diagnostics in, it is the same order in every process.
DERIVE_SPELLINGS = {
    "one-attribute": ["#[derive(ToString, ToJson)]"],
    "one-attribute-reversed": ["#[derive(ToJson, ToString)]"],
    "two-attributes": ["#[derive(ToString)]", "#[derive(ToJson)]"],
    "two-attributes-reversed": ["#[derive(ToJson)]", "#[derive(ToString)]"],
}
DERIVE_ITEMS = {
    # name: (declarations with {D} where the derive request goes, statements of main)
    "struct": ("{D}\nstruct Point { x: int32, y: int32 }\n",
               "let p = Point { x: 10, y: 20 };\n    let _ = string_println(p.to_string());\n    let _ = string_println(p.to_json());"),
    "enum": ("{D}\nenum Shape { Dot, Circle(int32), Rect(int32, int32) }\n",
             "let s = Rect(3, 4);\n    let _ = string_println(s.to_string());\n    let _ = string_println(Dot.to_json());\n    let _ = string_println(s.to_json());"),
    "struct-of-struct-and-enum": ("{D}\nstruct Point { x: int32, y: int32 }\n{D}\nenum Tag { Plain, Named(string) }\n{D}\nstruct Seg { a: Point, b: Point, t: Tag }\n",
                                  "let g = Seg { a: Point { x: 1, y: 2 }, b: Point { x: 3, y: 4 }, t: Named(\"n\") };\n    let _ = string_println(g.to_string());\n    let _ = string_println(g.to_json());"),
    "generic-struct": ("{D}\nstruct Pair[T] { a: T, b: T }\n", ""),
    "generic-enum": ("{D}\nenum Opt[T] { No, Yes(T) }\n", ""),
    "generic-struct-and-enum-and-plain-struct": ("{D}\nstruct Pair[T] { a: T, b: T }\n{D}\nenum Opt[T] { No, Yes(T) }\n{D}\nstruct Point { x: int32, y: int32 }\n", ""),
}


def derive_both_programs():
    """{name: source text of main.gom}"""
    out = {}
    for iname, (decls, body) in DERIVE_ITEMS.items():
        for sname, lines in DERIVE_SPELLINGS.items():
            src = "package Main\n\n" + decls.replace("{D}", "\n".join(lines)) + "\nfn main() -> unit {\n    " + (body + "\n    " if body else "") + "()\n}\n"
            out[f"{iname}:{sname}"] = src
    return out


def _pool_map(fn, items):
    from concurrent.futures import ThreadPoolExecutor
    with ThreadPoolExecutor(max_workers=NCPU) as ex:
        return list(ex.map(fn, items))


def run_cli(args, s=None, timeout=300):
    r = subprocess.run(pinned([CLI] + args, s) if s else [CLI] + args, stdout=subprocess.PIPE, stderr=subprocess.PIPE, text=True, timeout=timeout)
    return r.returncode, r.stdout, r.stderr


def iface_hash(text):
    try:
        return json.loads(text).get("interface_hash")
    except Exception:
        return None


def check_derive_family(tier, rep, root):
    """Compile every derive-both program in KD processes with pinned hash seeds: (a) the whole pipeline through the harness
    (Go text, every stage dump, diagnostics with their order), (b) `goml check` of the same file (interface text and hash, or the
    diagnostics it prints).  The family's programs are tiny, so it gets more seeds than the projects: the decisive hash table
    has two entries, one seed in two realises each order."""
    KD = 16 if tier == "quick" else 48
    seeds = seeds_for(KD + 1)[1:]
    progs = derive_both_programs()
    reqs = []
    for name, src in progs.items():
        d = os.path.join(root, "derive_" + name.replace(":", "_").replace("-", "_"))
        os.makedirs(d, exist_ok=True)
        open(os.path.join(d, "main.gom"), "w").write(src)
        reqs.append({"id": "derive:" + name, "path": os.path.join(d, "main.gom"), "dumps": True, "disc": False})
    answers = run_seeded(reqs, seeds)
    st = {"programs": len(reqs), "seeds": KD, "accepted": 0, "with_diagnostics": 0, "pipeline_comparisons": 0, "check_comparisons": 0}
    for j, rq in enumerate(reqs):
        base = obs_of(answers[0][j])
        if base["verdict"] == "ok":
            st["accepted"] += 1
        elif len(base["diags"]) >= 2:
            st["with_diagnostics"] += 1
        for si in range(1, KD):
            st["pipeline_comparisons"] += 1
            o = obs_of(answers[si][j])
            if o != base:
                what, where = first_diff(base, o)
                rep.violation(f"nondeterministic:{what}:{rq['id']}", {"seed_a": seeds[0], "seed_b": seeds[si], "first_difference": where, "source": progs[rq["id"][7:]]},
                              replay={"request": rq, "seeds": [seeds[0], seeds[si]]})
                break
    if st["accepted"] < 8 or st["with_diagnostics"] < 8:
        raise ToolError(f"vacuity: derive-both family: {st}")
    # (b) interface files / printed diagnostics of `goml check`
    build_cli()
    jobs = [(rq, si) for rq in reqs for si in range(KD)]

    def one(job):
        rq, si = job
        out = os.path.join(os.path.dirname(rq["path"]), f"chk{si}")
        shutil.rmtree(out, ignore_errors=True)
        os.makedirs(out)
        rc, so, se = run_cli(["check", "--package", "Main", "--input", rq["path"], "--output", out + "/Main"], seeds[si])
        it = open(out + "/Main.interface").read() if os.path.exists(out + "/Main.interface") else None
        return {"rc": rc, "printed": (so + se).replace(out, "OUT"), "interface": it}
    res = _pool_map(one, jobs)
    for j, rq in enumerate(reqs):
        base = res[j * KD]
        for si in range(1, KD):
            o = res[j * KD + si]
            st["check_comparisons"] += 1
            if o != base:
                what = "check-verdict" if o["rc"] != base["rc"] else "interface-hash" if iface_hash(o["interface"] or "") != iface_hash(base["interface"] or "") else \
                    "interface-file" if o["interface"] != base["interface"] else "check-diagnostics"
                rep.violation(f"nondeterministic:{what}:{rq['id']}",
                              {"seed_a": seeds[0], "seed_b": seeds[si], "a": {k: str(v)[:600] for k, v in base.items() if k != "interface"}, "b": {k: str(v)[:600] for k, v in o.items() if k != "interface"},
                               "interface_hash_a": iface_hash(base["interface"] or ""), "interface_hash_b": iface_hash(o["interface"] or ""), "source": progs[rq["id"][7:]]},
                              replay={"request": rq, "seeds": [seeds[0], seeds[si]]})
                break
    return st


# ----------------------------------------------------------------------------------------------------------------------
# Family "input-order": `check` / `build` take the sources of ONE package as a list of files.  The list is a set: the order in
# which the caller enumerates it (a shell glob, a build tool walking directories) must not show in the interface (text, hash),
# in the .core or in the linked Go.  Dimensions: layout of the package's files over directories (one directory; the same base
# name in two / three / nested directories; with another file whose name sorts before) x every permutation of the command line,
# plus command lines that name a file twice.
# NOT varied, on purpose: the *spelling* of a path.  Genuine defect of goml seen while building this family (reported, kept out):
# read_source_files sorts the paths as spelled, so `--input ./lib/shapes/types.gom lib/colors/types.gom` and
# `--input lib/shapes/types.gom lib/colors/types.gom` (the same two files) give different file orders and different
# interface hashes.  Every command line below spells every file the same way (absolute path under one root).
INPUT_LAYOUTS = {
    "one-directory": ["lib/alpha.gom", "lib/beta.gom", "lib/gamma.gom"],
    "same-base-name-in-two-directories": ["lib/shapes/types.gom", "lib/colors/types.gom"],
    "same-base-name-in-two-directories-and-an-earlier-name": ["lib/shapes/types.gom", "lib/colors/types.gom", "lib/misc/sizes.gom"],
    "same-base-name-in-three-directories": ["lib/b/mod.gom", "lib/c/mod.gom", "lib/a/mod.gom"],
    "same-base-name-in-nested-directories": ["lib/types.gom", "lib/inner/types.gom", "lib/inner/deep/types.gom"],
    "name-order-opposite-to-directory-order": ["lib/z/a.gom", "lib/y/b.gom", "lib/x/c.gom"],
}


def check_refusals(tier, rep, root, seeds):
    """What a refusing command says is output too: `link` over a fan (A; B, C, D import A; Main imports all) in which several things
    are wrong at once - several stale dependents, several missing cores, a duplicate - must name the same culprit and print the same
    text under every hash seed."""
    build_cli()
    proj = os.path.join(root, "refusals")
    shutil.rmtree(proj, ignore_errors=True)
    os.makedirs(proj + "/src"); os.makedirs(proj + "/out")
    src = {"A": "package A\n\nfn a_f(x: int32) -> int32 { x + 1 }\n"}
    for q in ("B", "C", "D"):
        src[q] = f"package {q}\nimport A\n\nfn {q.lower()}_f(x: int32) -> int32 {{ A::a_f(x) }}\n"
    src["Main"] = "package Main\nimport A\nimport B\nimport C\nimport D\n\nfn main() {\n    let _ = string_println(int32_to_string(B::b_f(1) + C::c_f(1) + D::d_f(1) + A::a_f(1)));\n    ()\n}\n"
    order = ("A", "B", "C", "D", "Main")

    def build(q):
        open(f"{proj}/src/{q}.gom", "w").write(src[q])
        rc, _, err = run_cli(["build", "--package", q, "--input", f"{proj}/src/{q}.gom", "--interface-path", f"{proj}/out", "--output", f"{proj}/out/{q}"])
        if rc != 0:
            raise ToolError(f"refusal family: build of {q} failed: {err[:300]}")
    for q in order:
        build(q)
    core = lambda q: f"{proj}/out/{q}.core"
    src["A"] = src["A"] + "fn a_g(x: int32) -> int32 { x }\n"
    build("A")                       # B, C, D and Main are stale now
    cases = {"four-stale-dependents": [core(q) for q in order],
             "two-missing-dependencies": [core("Main"), core("B")],
             "stale-and-missing": [core("Main"), core("A"), core("B")],
             "all-but-main": [core(q) for q in order if q != "Main"]}
    n = 0
    for cname, inputs in cases.items():
        seen = {}
        for s in seeds:
            rc, out, err = run_cli(["link", "--input"] + inputs + ["--output", f"{proj}/out/linked.go"], s)
            n += 1
            if rc == 0:
                raise ToolError(f"refusal family: link accepted {cname}")
            seen.setdefault(err.strip(), s)
        if len(seen) > 1:
            texts = sorted(seen)
            rep.violation(f"nondeterministic:diags:link-refusal:{cname}", {"messages": texts[:3], "seeds": [seen[t] for t in texts[:3]]},
                          replay={"inputs": inputs, "seeds": [seen[t] for t in texts[:2]]})
    return {"refusing_links_run": n, "cases": len(cases)}


def input_order_sources(rels):
    """{rel: text} of package Lib (one group of declarations per file, each file referring to the previous one) and app/main.gom"""
    files = {}
    tags = []
    for j, rel in enumerate(rels):
        t = "f%d" % j
        T = "F%d" % j
        prev = f" + {tags[-1]}_f(1)" if tags else ""
        files[rel] = (f"package Lib\n\nstruct {T}S {{ v: int32 }}\nenum {T}E {{ {T}A, {T}B(int32) }}\ntrait {T}Tr {{ fn {t}_m(Self) -> int32; }}\n"
                      f"impl {T}Tr for {T}S {{ fn {t}_m(self: {T}S) -> int32 {{ self.v + {j} }} }}\n"
                      f"fn {t}_f(x: int32) -> int32 {{ let q = x * {j + 2}; match q {{ 0 => 1, _ => q + {j} }} }}\n"
                      f"fn {t}_pick(e: {T}E) -> int32 {{ match e {{ {T}A => {j}, {T}B(n) => n }} }}\n"
                      f"fn {t}_g(s: {T}S) -> int32 {{ let w = {T}Tr::{t}_m(s); w{prev} }}\n")
        tags.append(t)
    uses = "".join(f"    let _ = string_println(int32_to_string(Lib::{t}_g(Lib::{t.upper()}S {{ v: {j + 1} }}) + Lib::{t}_pick(Lib::{t.upper()}E::{t.upper()}B({j + 5}))));\n" for j, t in enumerate(tags))
    files["app/main.gom"] = "package Main\n\nimport Lib\n\nfn main() -> unit {\n" + uses + "    ()\n}\n"
    return files


def check_input_orders(tier, rep, root, s):
    """Every command-line order of every layout through check / build / build Main / link (all processes pinned to one hash seed,
    so that the order of the inputs is the only thing that varies)."""
    import itertools
    build_cli()
    jobs = []
    for lname, rels in INPUT_LAYOUTS.items():
        proj = os.path.join(root, "inputs_" + lname.replace("-", "_"))
        shutil.rmtree(proj, ignore_errors=True)
        files = input_order_sources(rels)
        for rel, txt in files.items():
            os.makedirs(os.path.dirname(os.path.join(proj, rel)), exist_ok=True)
            open(os.path.join(proj, rel), "w").write(txt)
        canon = sorted(rels)
        orders = [list(p) for p in itertools.permutations(canon)]
        # a file named twice, with the others between the two mentions / in front
        orders += [[canon[0]] + canon[1:] + [canon[0]], canon[::-1] + [canon[-1]] + canon[:1]]
        if tier != "quick":
            orders += [list(p) + [p[0]] for p in itertools.permutations(canon)][1:]
        for oi, order in enumerate(orders):
            jobs.append((lname, proj, oi, order))

    def one(job):
        lname, proj, oi, order = job
        out = os.path.join(proj, f"out{oi}")
        os.makedirs(out + "/chk", exist_ok=True)
        inputs = [os.path.join(proj, r) for r in order]
        norm = lambda t: t.replace(out, "OUT")
        o = {}
        rc, so, se = run_cli(["check", "--package", "Lib", "--input"] + inputs + ["--output", out + "/chk/Lib"], s)
        o["check-verdict"] = (rc, norm(so + se))
        o["check-interface"] = open(out + "/chk/Lib.interface").read() if os.path.exists(out + "/chk/Lib.interface") else None
        rc, so, se = run_cli(["build", "--package", "Lib", "--input"] + inputs + ["--output", out + "/Lib"], s)
        o["build-verdict"] = (rc, norm(so + se))
        o["interface"] = open(out + "/Lib.interface").read() if os.path.exists(out + "/Lib.interface") else None
        o["core"] = norm(open(out + "/Lib.core").read()) if os.path.exists(out + "/Lib.core") else None
        o["linked-go"] = None
        if rc == 0:
            rc2, so, se = run_cli(["build", "--package", "Main", "--input", os.path.join(proj, "app/main.gom"), "--interface-path", out, "--output", out + "/Main"], s)
            o["dependent-verdict"] = (rc2, norm(so + se))
            if rc2 == 0:
                rc3, so, se = run_cli(["link", "--input", out + "/Lib.core", out + "/Main.core", "--output", out + "/main.go"], s)
                o["link-verdict"] = (rc3, norm(so + se))
                o["linked-go"] = open(out + "/main.go").read() if os.path.exists(out + "/main.go") else None
        return o
    res = _pool_map(one, jobs)
    st = {"layouts": len(INPUT_LAYOUTS), "command_lines": len(jobs), "comparisons": 0, "linked": 0}
    base = {}
    reported = set()
    for job, o in zip(jobs, res):
        lname, proj, oi, order = job
        if oi == 0:
            base[lname] = (order, o)
            if o["build-verdict"][0] != 0 or o["check-verdict"][0] != 0 or o.get("linked-go") is None:
                raise ToolError(f"input-order layout {lname} does not build in the canonical order: {o['build-verdict']} {o.get('dependent-verdict')} {o.get('link-verdict')}")
            continue
        st["comparisons"] += 1
        st["linked"] += o.get("linked-go") is not None
        border, b = base[lname]
        if o == b or lname in reported:
            continue
        reported.add(lname)
        if o["check-verdict"][0] != b["check-verdict"][0] or o["build-verdict"][0] != b["build-verdict"][0]:
            what = "verdict"
        elif iface_hash(o["interface"] or "") != iface_hash(b["interface"] or "") or iface_hash(o["check-interface"] or "") != iface_hash(b["check-interface"] or ""):
            what = "interface-hash"
        elif o["interface"] != b["interface"] or o["check-interface"] != b["check-interface"]:
            what = "interface-file"
        elif o["core"] != b["core"]:
            what = "core-file"
        elif o["linked-go"] != b["linked-go"]:
            what = "linked-go"
        else:
            what = "printed-output"
        k, where = first_diff({k: (v if isinstance(v, (str, type(None))) else str(v)) or "" for k, v in b.items()}, {k: (v if isinstance(v, (str, type(None))) else str(v)) or "" for k, v in o.items()})
        rep.violation(f"depends-on-input-order:{what}:{lname}",
                      {"inputs_a": border, "inputs_b": order, "first_difference_in": k, "first_difference": where,
                       "interface_hash_a": iface_hash(b["interface"] or ""), "interface_hash_b": iface_hash(o["interface"] or ""),
                       "verdicts_b": [o.get("check-verdict"), o.get("build-verdict")]},
                      replay={"layout": lname, "files": INPUT_LAYOUTS[lname], "inputs_a": border, "inputs_b": order, "seed": s})
    return st


def obs_of(ans):
    """Everything C13 says must be byte-identical."""
    o = {k: ans.get(k) for k in ("verdict", "go", "core", "mono", "lift", "anf", "tast", "hir", "ast")}
    o["diags"] = [(d["stage"], d["msg"], d["s"], d["e"]) for d in ans.get("diags", [])]
    if ans.get("verdict") == "panic":
        o["panic"] = ans.get("at")
    return o


def first_diff(a, b):
    for k in a:
        if a[k] != b[k]:
            x, y = a[k], b[k]
            if isinstance(x, str) and isinstance(y, str):
                xl, yl = x.splitlines(), y.splitlines()
                for i in range(min(len(xl), len(yl))):
                    if xl[i] != yl[i]:
                        return k, f"line {i+1}: {xl[i][:100]!r} vs {yl[i][:100]!r}"
                return k, f"length {len(xl)} vs {len(yl)} lines"
            return k, f"{str(x)[:200]} vs {str(y)[:200]}"
    return None, None


def run(tier, rep):
    build_harness()
    K = 6 if tier == "quick" else 32
    seeds = seeds_for(K)
    rnd = rng(13)
    # ---- 1. the design: Det holds for the sorted design on all import graphs (<= 3 other packages, <= 6 edges)
    r = run_tlc("MCDiscover", "Discover_sorted.cfg", workers=8, xmx="8g", coverage=True, timeout=1800)
    if not tlc_ok(r, "Discover_sorted"):
        rep.violation(f"model:Discover_sorted:{r.violated}", {"trace": r.trace[-5:]})
    states, trans, cover = r.distinct, r.generated, dict(r.coverage)
    for a in ("Pop", "Finish"):
        if cover.get(a, 0) == 0:
            raise ToolError(f"vacuity: Discover action {a} never taken")
    # negative control on the model itself: with HashSet iteration TLC must find a Det counterexample
    r2 = run_tlc("MCDiscover", "Discover_hashset.cfg", workers=8, xmx="8g", timeout=1800)
    if r2.violated != "Det":
        raise ToolError("model self-test: Discover with HashSet iteration did not violate Det")
    # ---- 2. projects and allowed orders from the model
    r3 = run_tlc("MCDiscover", "Discover_emit_sorted.cfg", workers=4, xmx="8g", timeout=1800)
    if r3.rc != 0:
        raise ToolError("Discover emit failed: " + (r3.error or r3.stdout[-1500:]))
    allowed = {}
    for rec in r3.json_prints("ORDER"):
        imp = {p: sorted(v) for p, v in rec["imports"].items()}
        if sorted(rec["exists"]) != sorted(imp.keys()):
            continue   # projects with missing directories are C16's business
        key = json.dumps(imp, sort_keys=True)
        allowed.setdefault(key, set()).add(tuple(rec["order"]))
    keys = sorted(allowed)
    def interesting(k):
        imp = json.loads(k)
        return max(len(v) for v in imp.values()) >= 2
    inter = [k for k in keys if interesting(k)]
    rnd.shuffle(inter)
    nproj = 40 if tier == "quick" else 400
    chosen = inter[:nproj]
    root = workdir("c13")
    reqs = []
    meta = []
    for i, k in enumerate(chosen):
        imp = json.loads(k)
        path = write_project(os.path.join(root, f"g{i}"), imp, list(imp.keys()), flavour=i % 4)
        reqs.append({"id": f"g{i}", "path": path, "dumps": True, "disc": True})
        meta.append(("graph", k))
    for name, files in ERR_PROJECTS.items():
        d = os.path.join(root, "err_" + name)
        for rel, txt in files.items():
            os.makedirs(os.path.dirname(os.path.join(d, rel)), exist_ok=True)
            open(os.path.join(d, rel), "w").write(txt)
        reqs.append({"id": "err_" + name, "path": os.path.join(d, "main.gom"), "dumps": True, "disc": False})
        meta.append(("err", name))
    for name, files in WIDE_PROJECTS.items():
        d = os.path.join(root, "wide_" + name)
        for rel, txt in files.items():
            os.makedirs(os.path.dirname(os.path.join(d, rel)), exist_ok=True)
            open(os.path.join(d, rel), "w").write(txt)
        reqs.append({"id": "wide_" + name, "path": os.path.join(d, "main.gom"), "dumps": True, "disc": False})
        meta.append(("wide", name))
    for d in sorted(glob.glob(os.path.join(CORPUS, "*"))) + sorted(glob.glob(os.path.join(PKG_CORPUS, "*"))):
        if os.path.exists(os.path.join(d, "main.gom")):
            reqs.append({"id": "corpus_" + os.path.basename(d), "path": os.path.join(d, "main.gom"), "dumps": True, "disc": False})
            meta.append(("corpus", os.path.basename(d)))
    answers = run_seeded(reqs, seeds)
    compared = 0
    differing = 0
    orders_checked = 0
    for j, rq in enumerate(reqs):
        kind, info = meta[j]
        base = obs_of(answers[0][j])
        for si in range(1, K):
            o = obs_of(answers[si][j])
            compared += 1
            if o != base:
                differing += 1
                what, where = first_diff(base, o)
                ident = f"nondeterministic:{what}:{kind}" + (":" + info if kind != "graph" else "")
                rep.violation(ident, {"project": rq["id"], "seed_a": seeds[0], "seed_b": seeds[si], "first_difference": where,
                                      "imports": json.loads(info) if kind == "graph" else info},
                              replay={"request": rq, "seeds": [seeds[0], seeds[si]]})
                break
        if kind == "graph":
            for si in range(K):
                d = answers[si][j].get("discovery") or {}
                if "order" in d:
                    orders_checked += 1
                    if tuple(d["order"]) not in allowed[info]:
                        rep.violation("discovery-order-not-a-model-behaviour",
                                      {"project": rq["id"], "imports": json.loads(info), "seed": seeds[si], "realised": d["order"],
                                       "model_allows": sorted(allowed[info])},
                                      replay={"request": rq, "seeds": [seeds[si]]})
                        break
        if j < 3:
            rep.sample({"project": rq["id"], "kind": kind, "imports": json.loads(info) if kind == "graph" else info,
                        "verdict": answers[0][j]["verdict"], "discovery": answers[0][j].get("discovery"),
                        "go_sha": hashlib.sha1((answers[0][j].get("go") or "").encode()).hexdigest()[:12]})
    # ---- 2b. the order in which the file system enumerates a package's files must not matter: the same multi-file project is
    # written twice with the files created in opposite orders (on tmpfs readdir follows creation order) and compiled
    files = {
        "main.gom": "package Main\nimport Shape\n\nfn main() {\n    let p = Shape::make(3, 4);\n    let _ = string_println(show(twice(Shape::sum(p))) + show(inc(Shape::norm(p))));\n    ()\n}\n",
        "arith.gom": "package Main\n\nfn twice(x: int32) -> int32 { x * 2 }\nfn inc(x: int32) -> int32 { let one = 1; x + one }\n",
        "show.gom": "package Main\n\nfn show(x: int32) -> string { let s = int32_to_string(x); s + \";\" }\n",
        "zeta.gom": "package Main\n\nfn unused_z(x: int32) -> int32 { match x { 0 => 1, _ => x } }\n",
        "Shape/point.gom": "package Shape\n\nstruct Point { x: int32, y: int32 }\nfn make(x: int32, y: int32) -> Point { Point { x: x, y: y } }\n",
        "Shape/ops.gom": "package Shape\n\nfn sum(p: Point) -> int32 { p.x + p.y }\nfn norm(p: Point) -> int32 { let a = p.x * p.x; a + p.y * p.y }\n",
        "Shape/alpha.gom": "package Shape\n\nfn origin() -> Point { make(0, 0) }\n",
    }
    base_dir = "/dev/shm" if os.path.isdir("/dev/shm") and os.access("/dev/shm", os.W_OK) else root
    copies = []
    for ci, order in enumerate((sorted(files), sorted(files, reverse=True))):
        d = os.path.join(base_dir, f"verif-c13-readdir-{os.getpid()}-{ci}")
        shutil.rmtree(d, ignore_errors=True)
        os.makedirs(os.path.join(d, "Shape"))
        for rel in order:
            open(os.path.join(d, rel), "w").write(files[rel])
        copies.append(d)
    try:
        listings = [[sorted(os.listdir(d)) == os.listdir(d), os.listdir(d), os.listdir(os.path.join(d, "Shape"))] for d in copies]
        ans = gv("compile", [{"id": ci, "path": os.path.join(d, "main.gom"), "dumps": True} for ci, d in enumerate(copies)])
        obs = []
        for d, a in zip(copies, ans):
            o = obs_of(a)
            obs.append(json.loads(json.dumps(o).replace(d, "<root>")))
        if obs[0] != obs[1]:
            what, where = first_diff(obs[0], obs[1])
            rep.violation(f"depends-on-directory-enumeration-order:{what}", {"first_difference": where, "enumeration_copy_0": listings[0][1:], "enumeration_copy_1": listings[1][1:]},
                          replay={"files": files})
        if obs[0]["verdict"] != "ok":
            raise ToolError("readdir project does not compile: " + str(ans[0].get("diags"))[:300])
        rep.coverage["directory_enumeration_orders_differ_between_copies"] = listings[0][1:] != listings[1][1:]
    finally:
        for d in copies:
            shutil.rmtree(d, ignore_errors=True)
    # ---- 3. interface files under seeds (CLI check of a package with several imports)
    build_cli()
    iface_compared = 0
    proj = os.path.join(root, "iface")
    imp = {"A": [], "B": [], "C": [], "D": ["A", "B", "C"]}
    os.makedirs(proj + "/src", exist_ok=True)
    for p in imp:
        open(f"{proj}/src/{p}.gom", "w").write(projgen.pkg_source(p, imp[p], projgen.IFACE_KINDS, []))
    blobs = {}
    for si, s in enumerate(seeds):
        out = f"{proj}/out{si}"
        os.makedirs(out, exist_ok=True)
        for p in ("A", "B", "C", "D"):
            rr = subprocess.run(pinned([CLI, "build", "--package", p, "--input", f"{proj}/src/{p}.gom", "--interface-path", out,
                                        "--output", f"{out}/{p}"], s), stdout=subprocess.PIPE, stderr=subprocess.PIPE, text=True)
            if rr.returncode != 0:
                raise ToolError("iface build failed: " + rr.stderr[-500:])
            for ext in ("interface", "core"):
                b = open(f"{out}/{p}.{ext}").read().replace(out, "OUT")
                iface_compared += 1
                if blobs.setdefault((p, ext), b) != b:
                    rep.violation(f"nondeterministic:{ext}-file", {"package": p, "seed": s}, replay={"seeds": [seeds[0], s]})
    # ---- 4. one type deriving both ToString and ToJson, under more seeds (pipeline through the harness and `goml check`)
    rep.coverage["derive_both_family"] = check_derive_family(tier, rep, root)
    # ---- 5. the order in which the sources of a package are named on the command line of check / build
    rep.coverage["input_order_family"] = check_input_orders(tier, rep, root, seeds[0])
    rep.coverage["refusal_family"] = check_refusals(tier, rep, root, seeds)
    rep.coverage.update({
        "states": states + r2.distinct + r3.distinct, "transitions": trans + r2.generated + r3.generated,
        "traces_validated_against_impl": orders_checked,
        "action_coverage": cover, "seeds": K, "seed_pinning": "strace getrandom injection" if strace_available() else "fresh processes (strace unavailable)",
        "projects": len(reqs), "pairwise_comparisons": compared, "differing": differing,
        "artifact_files_compared": iface_compared, "model_projects": len(keys),
    })
    rep.assumptions += [
        "the only uncontrolled nondeterminism of the compiler is std RandomState (pinned per process by seed); the file system enumerates directories in a fixed order here, and read_gom_sources sorts",
        "K seeds sample the hash-order space; with 3 imports all 6 iteration orders appear with probability > 0.99 at K = 32",
    ]
