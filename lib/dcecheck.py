"""Validation of the real dead-code elimination (go/dce.rs) against spec/Dce.tla (through spec/DceCheck.tla).

With --cfg goml_verif, go_file reports the Go program it hands to eliminate_dead_vars ("pre_dce").  That text and the Go text
the compiler emitted are parsed by the independent Go-subset parser; TLC evaluates Dce.tla's relation `Same(pre, post)`:
every surviving function has the same effect skeleton (calls, operations that can fail, stores, go, return, break, loops,
with the control structure) before and after the pass.  Unlike the executions of GoSem this judges every path of every
function, executed or not."""
import collections, os
from common import *
import gopipe


def atom_kind(a):
    for p in ("call:", "method:"):
        if a.startswith(p):
            return p[:-1]
    return a


def classify(diff):
    """diff: {fn, pre: [atoms], post: [atoms]} -> identity suffix"""
    pre, post = collections.Counter(diff["pre"]), collections.Counter(diff["post"])
    lost = pre - post
    extra = post - pre
    struct = {"if(", "switch(", "tswitch(", "cond(", "|", ")"}
    lk = sorted({atom_kind(a) for a in lost if a not in struct})
    ek = sorted({atom_kind(a) for a in extra if a not in struct})
    if not lk and not ek:
        return "reordered" if sorted(diff["pre"]) == sorted(diff["post"]) else "restructured"
    return ("dropped:" + "+".join(lk) if lk else "") + (("," if lk else "") + "added:" + "+".join(ek) if ek else "")


def validate(cases, rep, name, ident=lambda c: c.get("ident", c["id"])):
    """cases: [{id, path, ...}] of programs; compiles each with the dce trace on and checks pre/post with TLC."""
    need_feature("hooks")
    reqs = [{"id": c["id"], "path": c["path"], "trace": ["dce"]} for c in cases]
    answers = gv_robust("compile", reqs, extra=["--limit-ms", "60000"])
    recs, by = [], {}
    skipped = collections.Counter()
    for c, a in zip(cases, answers):
        if a.get("verdict") != "ok":
            continue
        pre = next((e["go"] for e in a.get("trace", []) if e.get("ev") == "pre_dce"), None)
        if pre is None:
            skipped["no-pre-dce-event"] += 1
            continue
        r1, e1 = gopipe.go_record(str(c["id"]), pre)
        r2, e2 = gopipe.go_record(str(c["id"]), a["go"])
        if e1 or e2:
            skipped["outside-go-subset"] += 1
            continue
        recs.append({"name": str(c["id"]), "pre": r1["ast"], "post": r2["ast"]})
        by[str(c["id"])] = c
    if not recs:
        return {"programs": 0, "skipped": dict(skipped)}
    res, st = gopipe.run_sharded("DceCheck", "DceCheck.cfg", recs, envname="DCE", name="dce-" + name, timeout=2400)
    stats = {"programs": len(recs), "functions": 0, "effect_atoms": 0, "programs_where_dce_removed_something": 0, "skipped": dict(skipped),
             "states": st["states"]}
    for rec in recs:
        r = res[rec["name"]]
        stats["functions"] += r["nfuncs"]
        stats["effect_atoms"] += r["natoms"]
        if len(rec["pre"]["blocks"]) != len(rec["post"]["blocks"]) or rec["pre"]["blocks"] != rec["post"]["blocks"]:
            stats["programs_where_dce_removed_something"] += 1
        if r["ndiff"] == 0:
            continue
        c = by[rec["name"]]
        for d in r["diffs"]:
            rep.violation(f"{ident(c)}:dce:{classify(d)}", {"function": d["fn"], "effects_before": d["pre"][:60], "effects_after": d["post"][:60], "path": c.get("path")},
                          replay={"path": c.get("path"), "ident": ident(c)})
        for m in r.get("methods", []):
            rep.violation(f"{ident(c)}:dce:method-changed", {"method": m, "path": c.get("path")}, replay={"path": c.get("path"), "ident": ident(c)})
    return stats
