"""C11 — source text is read as written: precedence, associativity, literal fidelity.

spec/Pratt.tla holds the documented grammar (precedence table, Render with minimal parentheses, a declarative
precedence-climbing Parse); TLC checks Parse(Render(t)) = t for every expression shape with <= 2 operator nodes over all
12 binary / 2 prefix / 5 postfix forms and <= 3 nodes over representative operators, and emits (tokens, tree).  Every token
list is joined with several trivia choices (single spaces, none, newlines and line comments) and parsed by the real
lexer/parser/AST lowering; the ast::File expression must be the tree.  spec/Lexis.tla gives the denotation of string
literals (every escape the lexer accepts) — the AST's string value must be the denoted bytes — and of numeric spellings."""
import json, random
from common import *

LEVEL = "model_checking"


def name_leaves(toks, tree):
    """number anonymous leaves left to right in both the token list and the tree"""
    out = []
    n = 0
    for t in toks:
        if t == "v":
            n += 1
            out.append(f"x{n}")
        elif t == "f":
            out.append("fld")
        else:
            out.append(t)
    cnt = [0]

    def walk(t):
        k = t["k"]
        if k == "v":
            cnt[0] += 1
            return {"k": "path", "p": f"x{cnt[0]}"}
        if k == "bin":
            l = walk(t["l"]); r = walk(t["r"])
            return {"k": "bin", "op": t["op"], "l": l, "r": r}
        if k == "un":
            return {"k": "un", "op": t["op"], "e": walk(t["e"])}
        if k == "call":
            f = walk(t["f"])
            return {"k": "call", "f": f, "as": [walk(a) for a in t["as"]]}
        if k == "field":
            return {"k": "field", "e": walk(t["e"]), "f": "fld"}
        if k == "proj":
            return {"k": "proj", "e": walk(t["e"]), "i": 0}
        raise ValueError(k)
    return out, walk(tree)


def join(toks, style, rnd):
    if style == "space":
        return " ".join(toks)
    if style == "tight":
        s = ""
        for i, t in enumerate(toks):
            if i and (s[-1].isalnum() or s[-1] == "_") and (t[0].isalnum() or t[0] == "_"):
                s += " "
            s += t
        return s
    parts = []
    for t in toks:
        parts.append(t)
        parts.append(rnd.choice([" ", "\n", "  ", "\t", " // c\n", "\n\n"]))
    return "".join(parts)


def canon(e):
    """drop representation details that are not part of the tree (let pattern rendering etc.)"""
    return json.dumps(e, sort_keys=True)


def shape(tree):
    k = tree["k"]
    if k == "v":
        return "v"
    if k == "bin":
        return f"({shape(tree['l'])}{tree['op']}{shape(tree['r'])})"
    if k == "un":
        return f"{tree['op']}{shape(tree['e'])}"
    if k == "call":
        return f"{shape(tree['f'])}({','.join(shape(a) for a in tree['as'])})"
    if k == "field":
        return shape(tree["e"]) + ".f"
    return shape(tree["e"]) + ".0"


def features(t, style):
    """constructs of the tree that touch the AST lowering's argument re-association (apply_trailing_args)"""
    f = set()

    def walk(t):
        k = t["k"]
        if k == "call":
            if t["f"]["k"] in ("un", "bin"):
                f.add("call-on-parenthesized-operator")
            if t["f"]["k"] == "call" and len(t["as"]) >= 2:
                f.add("chained-call-with-several-args")
            if t["f"]["k"] == "proj":
                f.add("call-on-proj")
            walk(t["f"])
            for a in t["as"]:
                walk(a)
        elif k == "un":
            e = t["e"]
            while e["k"] in ("field", "proj"):
                e = e["e"]
            if t["e"]["k"] == "call" and not t["e"]["as"]:
                f.add("prefix-on-zero-arg-call")
            if t["e"]["k"] == "call" and t["e"]["f"]["k"] == "call":
                f.add("prefix-on-chained-call")          # -f(x)(y): only the first argument list is moved into the operand
            if t["e"]["k"] in ("field", "proj") and e["k"] == "call":
                f.add("prefix-on-postfix-after-call")
            walk(t["e"])
        elif k == "bin":
            walk(t["l"]); walk(t["r"])
        elif k in ("field", "proj"):
            if k == "proj" and t["e"]["k"] == "proj" and style == "tight":
                f.add("nested-proj-without-space")
            walk(t["e"])
    walk(t)
    return sorted(f)


INT_BITS = {"int8": (8, True), "int16": (16, True), "int32": (32, True), "int64": (64, True),
            "uint8": (8, False), "uint16": (16, False), "uint32": (32, False), "uint64": (64, False)}
INT_PRIM = {"Int8": "int8", "Int16": "int16", "Int32": "int32", "Int64": "int64", "UInt8": "uint8", "UInt16": "uint16", "UInt32": "uint32", "UInt64": "uint64",
            "Uint8": "uint8", "Uint16": "uint16", "Uint32": "uint32", "Uint64": "uint64"}


def integer_literal_values(rep, tier):
    """An integer literal denotes the value written, as an expression and as a pattern: the literal is followed from the text
    to the typed program (the Core tree the compiler hands on, exported as JSON), where every integer constant must carry the
    written value at the written type.  (The syntax tree keeps the digits as text, so reading a literal *as a number* happens
    after parsing; literal fidelity is only established once the number is there.)
    Values: 0, 1 and the boundaries 2^k - 1, 2^k of every integer width (k = 7, 8, 15, 16, 31, 32, 63, 64) that fit the type, so
    every reading through a narrower or differently signed intermediate type shows.  Positions: suffixed let, annotated let,
    argument, operand, tuple element, struct field, operand of a prefix minus; pattern of a match arm, pattern under a tuple and
    under a constructor, two different literal patterns in one match."""
    suffix = {"int8": "i8", "int16": "i16", "int32": "i32", "int64": "i64", "uint8": "u8", "uint16": "u16", "uint32": "u32", "uint64": "u64"}
    d = workdir("c11-intlit")
    reqs, meta = [], []

    def vname(v):
        for k in (7, 8, 15, 16, 31, 32, 63, 64):
            if v == 2 ** k:
                return f"2^{k}"
            if v == 2 ** k - 1:
                return f"2^{k}-1"
        return str(v)

    for ty, (bits, signed) in INT_BITS.items():
        hi = 2 ** (bits - 1) - 1 if signed else 2 ** bits - 1
        vals = sorted({0, 1} | {v for k in (7, 8, 15, 16, 31, 32, 63, 64) for v in (2 ** k - 1, 2 ** k) if v <= hi})
        if tier == "quick":
            vals = [v for v in vals if v in (1, hi) or v >= 2 ** 31 - 1 or bits <= 16]
        show = f"{ty}_to_string"
        for v in vals:
            L = f"{v}{suffix[ty]}"
            other = f"{(v - 1) if v > 0 else 1}{suffix[ty]}"
            forms = {
                "let-suffixed": (f"fn main() {{\n    let a = {L};\n    let _ = string_println({show}(a));\n    ()\n}}\n", [v]),
                "let-annotated": (f"fn main() {{\n    let a: {ty} = {L};\n    let _ = string_println({show}(a));\n    ()\n}}\n", [v]),
                "argument": (f"fn main() {{\n    let _ = string_println({show}({L}));\n    ()\n}}\n", [v]),
                "operand": (f"fn f(x: {ty}) -> {ty} {{ x + {L} }}\nfn g(x: {ty}) -> bool {{ {L} < x }}\n"
                            f"fn main() {{\n    let _ = string_println({show}(f({L})) + bool_to_string(g({L})));\n    ()\n}}\n", [v, v, v, v]),
                "tuple-element": (f"fn main() {{\n    let t = ({L}, true);\n    let _ = string_println({show}(t.0));\n    ()\n}}\n", [v]),
                "struct-field": (f"struct S {{ a: {ty}, b: bool }}\nfn main() {{\n    let s = S {{ a: {L}, b: true }};\n    let _ = string_println({show}(s.a));\n    ()\n}}\n", [v]),
                "pattern": (f'fn cls(x: {ty}) -> string {{\n    match x {{\n        {L} => "hit",\n        _ => "other",\n    }}\n}}\n'
                            f"fn main() {{\n    let _ = string_println(cls({L}));\n    ()\n}}\n", [v, v]),
                "pattern-in-tuple": (f'fn cls(x: {ty}, b: bool) -> string {{\n    match (x, b) {{\n        ({L}, true) => "hit",\n        _ => "other",\n    }}\n}}\n'
                                     f"fn main() {{\n    let _ = string_println(cls({L}, true));\n    ()\n}}\n", [v, v]),
                "pattern-in-constructor": (f'enum W {{ K({ty}), N }}\nfn cls(w: W) -> string {{\n    match w {{\n        K({L}) => "hit",\n        K(_) => "other",\n        N => "none",\n    }}\n}}\n'
                                           f"fn main() {{\n    let _ = string_println(cls(K({L})));\n    ()\n}}\n", [v, v]),
                "two-patterns": (f'fn cls(x: {ty}) -> string {{\n    match x {{\n        {L} => "hit",\n        {other} => "next",\n        _ => "other",\n    }}\n}}\n'
                                 f"fn main() {{\n    let _ = string_println(cls({L}) + cls({other}));\n    ()\n}}\n", [v, v, int(other[:-len(suffix[ty])]), int(other[:-len(suffix[ty])])]),
            }
            if signed:
                forms["negated"] = (f"fn main() {{\n    let a = -{L};\n    let _ = string_println({show}(a));\n    ()\n}}\n", [v])
            for fname, (text, want) in forms.items():
                reqs.append({"id": len(reqs), "text": text, "dir": d, "core_json": True})
                meta.append((ty, v, fname, text, sorted(want)))

    def prims(x, acc):
        if isinstance(x, dict):
            p = x.get("EPrim")
            if isinstance(p, dict) and isinstance(p.get("value"), dict):
                for k, val in p["value"].items():
                    if k in INT_PRIM and isinstance(val, dict):
                        acc.append((INT_PRIM[k], val.get("value")))
            for y in x.values():
                prims(y, acc)
        elif isinstance(x, list):
            for y in x:
                prims(y, acc)
        return acc

    ok = unread = 0
    before = len(rep.violations)
    for (ty, v, fname, text, want), r in zip(meta, gv_parallel("compile", reqs)):
        ident = f"integer-literal-value:{ty}:{vname(v)}:{fname}"
        if r["verdict"] in ("panic", "timeout"):
            rep.violation(ident + ":" + r["verdict"], {"text": text, "at": r.get("at")}, replay={"text": text})
            continue
        if r["verdict"] != "ok":
            # every literal here is in range and carries its suffix: it must be accepted
            rep.violation(ident + ":rejected", {"text": text, "diags": [x["msg"] for x in r.get("diags", [])][:3]}, replay={"text": text})
            continue
        if not isinstance(r.get("core_json"), dict):
            unread += 1
            continue
        got = prims(r["core_json"], [])
        if not got:
            unread += 1
            continue
        # the program holds no other integer literal: every integer constant of the typed program is one of the written ones,
        # at the written type, and every written value is there (a match may mention a pattern's constant once or several times)
        bad = [(t, g) for t, g in got if t != ty or g not in want]
        missing = [w for w in set(want) if w not in [g for _, g in got]]
        if bad or missing:
            rep.violation(ident, {"text": text, "written": f"{v} at {ty}", "constants_of_the_typed_program": [f"{g} at {t}" for t, g in got][:8],
                                  "written_values_absent": missing}, replay={"text": text})
        else:
            ok += 1
    rep.coverage["integer_literal_programs"] = len(reqs)
    rep.coverage["integer_literal_values_found_in_typed_program"] = ok
    rep.coverage["integer_literal_programs_without_typed_export"] = unread
    if ok < len(reqs) // 2 and len(rep.violations) == before:
        raise ToolError("vacuity: integer literal values (typed program not readable)")


def run(tier, rep):
    build_harness()
    rnd = rng(11)
    cfgs = ["Pratt_2.cfg"] + (["Pratt_3.cfg"] if True else [])
    trees = []
    states = trans = 0
    for cfg in cfgs:
        r = run_tlc("MCPratt", cfg, workers=8, xmx="8g", timeout=2400, xss="256m")
        if not tlc_ok(r, cfg):
            rep.violation(f"model:{cfg}:{r.violated}", {"trace": r.trace[-1:]})
        states += r.distinct
        trans += r.generated
        ts = r.json_prints("TREE")
        if cfg == "Pratt_3.cfg" and tier == "quick":
            rnd.shuffle(ts)
            ts = ts[:1500]
        trees += ts
    if len(trees) < 600:
        raise ToolError("too few trees emitted by Pratt")
    reqs, meta = [], []
    styles = ["space", "tight", "mixed"]
    for i, tr in enumerate(trees):
        toks, tree = name_leaves(tr["toks"], tr["tree"])
        for st in (styles if i % 4 == 0 or tier == "thorough" else [styles[i % 3]]):
            text = "fn main() {\n    let _ = " + join(toks, st, rnd) + ";\n    ()\n}\n"
            reqs.append({"id": len(reqs), "mode": "ast", "text": text})
            meta.append((tr, tree, st, text))
    answers = gv_parallel("parse", reqs, shards=NCPU)
    ok = 0
    for (tr, tree, st, text), a in zip(meta, answers):
        sh = shape(tr["tree"])
        fs = features(tr["tree"], st)
        sh = "+".join(fs) if fs else "plain:" + sh
        if a["verdict"] != "ok":
            rep.violation(f"tree:{sh}", {"text": text, "answer": {k: a.get(k) for k in ("verdict", "diags", "msg", "at")}}, replay={"text": text})
            continue
        body = a["fns"]["main"]
        got = body["es"][0]["e"] if body["k"] == "block" and body["es"] and body["es"][0]["k"] == "let" else None
        if got is None or canon(got) != canon(tree):
            rep.violation(f"tree:{sh}", {"text": text, "expected": tree, "got": got}, replay={"text": text})
        else:
            ok += 1
    for tr, tree, st, text in meta[:3]:
        rep.sample({"tokens": tr["toks"], "tree": shape(tr["tree"]), "text": text})
    # ---- type expressions: TypeGrammar.tla's trees, rendered, parsed and lowered by the real front end
    tg = run_tlc("TypeGrammar", "TypeGrammar.cfg", workers=8, xmx="8g", timeout=1800)
    if not tlc_ok(tg, "TypeGrammar"):
        rep.violation(f"model:TypeGrammar:{tg.violated}", {"trace": tg.trace[-1:]})
    types = tg.json_prints("TYPE")
    if len(types) != tg.distinct or len(types) < 10000:
        raise ToolError("TypeGrammar: unexpected number of type trees")
    rnd_t = rng(11)
    rnd_t.shuffle(types)
    types = types if tier == "thorough" else types[:3000]

    def norm_ty(x):
        k = x["k"]
        if k == "con":
            return ("con", x["n"])
        if k == "tuple":
            return ("tuple", tuple(norm_ty(y) for y in x["ts"]))
        if k == "app":
            return ("app", tuple(norm_ty(y) for y in x["as"])) if "f" not in x or x["f"] == {"k": "con", "n": "Vec"} else ("app?", str(x["f"]))
        if k == "array":
            return ("array", norm_ty(x["e"])) if x.get("len", 3) == 3 else ("array?", x.get("len"))
        if k == "fn":
            return ("fn", tuple(norm_ty(y) for y in x["ps"]), norm_ty(x["r"]))
        return (k,)

    def type_shape(x):
        """what the type tree exercises (identity of a failure)"""
        fs = set()

        def w(y, pos):
            if y["k"] == "fn":
                fs.add("arrow-in-" + pos)
                if y["r"]["k"] == "fn":
                    fs.add("curried")
                for p_ in y["ps"]:
                    w(p_, "param")
                w(y["r"], "result")
            elif y["k"] == "tuple":
                fs.add("tuple%d-in-%s" % (len(y["ts"]), pos))
                for p_ in y["ts"]:
                    w(p_, "tuple")
            elif y["k"] == "app":
                for p_ in y["as"]:
                    w(p_, "arg")
            elif y["k"] == "array":
                w(y["e"], "array")
        w(x, "top")
        return "+".join(sorted(fs)) or "atom"
    treq = []
    for i, ty in enumerate(types):
        sp = " ".join(ty["toks"])
        treq.append({"id": i, "mode": "ast", "text": f"fn f[T](a: {sp}) -> {sp} {{ () }}\n"})
    tans = gv_parallel("parse", treq, shards=NCPU)
    ty_ok = 0
    for ty, q, a in zip(types, treq, tans):
        want = norm_ty(ty["tree"])
        if a["verdict"] != "ok":
            rep.violation(f"type-{a['verdict']}:{type_shape(ty['tree'])}", {"text": q["text"], "diags": a.get("diags"), "msg": a.get("msg")}, replay={"text": q["text"]})
            continue
        sg = a["sigs"]["f"]
        got_p, got_r = norm_ty(sg["params"][0]), norm_ty(sg["ret"])
        if got_p != want or got_r != want:
            rep.violation(f"type-tree:{type_shape(ty['tree'])}", {"text": q["text"], "expected": ty["tree"], "got_param": sg["params"][0], "got_result": sg["ret"]}, replay={"text": q["text"]})
        else:
            ty_ok += 1
    rep.coverage["type_expressions_in_model"] = tg.distinct
    rep.coverage["type_expressions_parsed"] = ty_ok
    # ---- compound expressions, statements, patterns: Syntax.tla
    import c11syn
    c11syn.run(tier, rep, rng(12))
    c11syn.run_items(tier, rep, rng(13))
    # ---- literals
    r = run_tlc("Lexis", "Lexis.cfg", workers=4, xmx="4g", timeout=900)
    if not tlc_ok(r, "Lexis"):
        rep.violation(f"model:Lexis:{r.violated}", {})
    lits = r.json_prints("STRLIT")
    lreq, lmeta = [], []
    for l in lits:
        try:
            body = bytes(l["src"]).decode("utf-8")
        except UnicodeDecodeError:
            continue
        text = 'fn main() {\n    let _ = "' + body + '";\n    ()\n}\n'
        lreq.append({"id": len(lreq), "mode": "ast", "text": text})
        lmeta.append((l, text, "string"))
    # numeric spellings: (text, kind, ty, value-as-written-normalised)
    nums = [("007", "int", "", "7"), ("0", "int", "", "0"), ("2147483647", "int", "", "2147483647"), ("00", "int", "", "0"),
            ("12i8", "int", "int8", "12"), ("012u16", "int", "uint16", "12"), ("18446744073709551615u64", "int", "uint64", "18446744073709551615"),
            ("1.5", "float", "", "1.5"), ("0.25", "float", "", "0.25"), ("10.0", "float", "", "10.0"), ("1.5f32", "float", "float32", "1.5"),
            ("2.25f64", "float", "float64", "2.25"), ("007.50", "float", "", "7.5")]
    for sp, kind, ty, val in nums:
        text = "fn main() {\n    let _ = " + sp + ";\n    ()\n}\n"
        lreq.append({"id": len(lreq), "mode": "ast", "text": text})
        lmeta.append(((sp, kind, ty, val), text, "num"))
    # multi-line strings: lines verbatim, joined by LF
    for lines in (["a", "b"], ['q"uote', "back\\slash"], ["", ""], ["tab\there", "é"], ["x", "", "z"], ["trailing space ", "trailing tab\t", "   ", "end"],
                  [" leading", "\t\tindented", "both "], ["\\\\ looks like an introducer", "//not a comment"]):
        text = "fn main() {\n    let _ = " + "\n        ".join("\\\\" + ln for ln in lines) + "\n    ;\n    ()\n}\n"
        lreq.append({"id": len(lreq), "mode": "ast", "text": text})
        lmeta.append((("\n".join(lines)).encode("utf-8"), text, "multiline"))
    lans = gv_parallel("parse", lreq, shards=8)
    lit_ok = 0
    from fractions import Fraction
    for (m, text, kind), a in zip(lmeta, lans):
        if a["verdict"] != "ok":
            what = "string" if kind == "string" else kind
            rep.violation(f"literal-{a['verdict']}:{what}", {"text": text, "diags": a.get("diags")}, replay={"text": text})
            continue
        e = a["fns"]["main"]["es"][0]["e"]
        if kind == "string":
            exp = m["den"]
            if e.get("k") != "str" or e.get("bytes") != exp:
                escs = set()
                i = 0
                src = m["src"]
                while i < len(src):
                    if src[i] == 92 and i + 1 < len(src):
                        escs.add({34: "quote", 92: "backslash", 47: "slash", 98: "b", 102: "f", 110: "n", 114: "r", 116: "t", 117: "u"}.get(src[i + 1], "other"))
                        i += 6 if src[i + 1] == 117 else 2
                    else:
                        i += 1
                escs = sorted(escs)
                rep.violation("string-escape:" + "+".join(escs), {"text": text, "expected_bytes": exp, "got": e}, replay={"text": text})
            else:
                lit_ok += 1
        elif kind == "multiline":
            if e.get("k") != "str" or bytes(e.get("bytes", [])) != m:
                rep.violation("multiline-string", {"text": text, "expected": list(m), "got": e}, replay={"text": text})
            else:
                lit_ok += 1
        else:
            sp, k2, ty, val = m
            good = e.get("k") == k2 and e.get("ty") == ty
            if good and k2 == "int":
                good = e["v"].lstrip("0") == val.lstrip("0") or (e["v"].strip("0") == "" and val.strip("0") == "")
            elif good:
                try:
                    good = Fraction(e["v"].replace("f32", "").replace("f64", "")) == Fraction(val)
                except Exception:
                    good = False
            if not good:
                rep.violation(f"numeric-literal:{sp}", {"text": text, "got": e}, replay={"text": text})
            else:
                lit_ok += 1
    # ---- integer literals as numbers: followed to the typed program
    integer_literal_values(rep, tier)
    states += rep.coverage.get("syntax_states", 0) + tg.distinct
    trans += rep.coverage.get("syntax_states", 0) + tg.generated
    rep.coverage.update({"states": states + r.distinct, "transitions": trans + r.generated, "traces_validated_against_impl": len(reqs) + len(lreq) + len(treq) + rep.coverage.get("syntax_trees_parsed_equal", 0) + rep.coverage.get("item_files_parsed_equal", 0),
                         "expression_texts": len(reqs), "expression_trees": len(trees), "expressions_ok": ok, "literals": len(lreq), "literals_ok": lit_ok,
                         "exhaustive": True})
    rep.assumptions += ["operator trees: all shapes with <= 2 operator nodes over every operator, <= 3 nodes over one or two operators per precedence level"
                        " (sampled in the quick tier); leaves are variables; trivia drawn from {space, none, newline, tab, line comment}"]
    # ---- which token a spelling is: the lexer against Lexer.tla on texts built from keywords, near-keywords, numbers with complete
    # and incomplete suffixes, operators and their prefixes, string and multi-line string fragments (the character-level texts are C12's)
    import lexercheck, corpus
    lst = lexercheck.run(tier, rep, [(c["name"], open(c["src"]).read()) for c in corpus.single_file_cases()], parts=("pieces", "files"))
    rep.coverage["lexer_specification"] = lst
    rep.coverage["states"] += lst["states"]
    rep.coverage["traces_validated_against_impl"] += lst["texts"]
    if ok < 500:
        raise ToolError("vacuity: fewer than 500 expression texts agreed")
