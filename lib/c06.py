"""C06 — pattern matching picks the first matching arm and binds the right sub-values.

spec/MatchSem.tla defines Matches / Binds / FirstMatch over a type universe (bool, int and string literals, tuples, a
struct with permuted field patterns, plain and generic enums, nesting depth 2) and generates pattern matrices row by
row; TLC checks FirstMatchIsFirst on the model and emits every generated matrix with the expected arm and bindings
for every value of the scrutinee type.  Each matrix becomes a goml program (match in unit and in value position,
destructuring let for irrefutable rows) compiled by the real pipeline; GoSem.tla runs the decision tree the compiler
produced; the output must equal FirstMatch's prediction (and GomlSem's, as a consistency check of the two specs)."""
from common import *
import famcheck, fam_c06, fam_found

LEVEL = "model_checking"


def run(tier, rep):
    build_harness()
    r = run_tlc("MCMatchSem", "MatchSem_small.cfg", workers=8, xmx="8g", coverage=True, timeout=1800)
    if not tlc_ok(r, "MatchSem_small"):
        rep.violation(f"model:MatchSem:{r.violated}", {"trace": r.trace[-3:]})
    for a in ("AddRow", "Finish"):
        if r.coverage.get(a, 0) == 0:
            raise ToolError(f"vacuity: MatchSem action {a} never taken")
    progs = fam_c06.programs(tier)
    # (first-match semantics must not depend on which file of the package declares the enum)
    progs += [m for m in fam_found.programs(tier) if m["family"] == "found:constructor-pattern-across-files"]
    cases, counts = famcheck.run_families("C06", rep, progs, "c06", goinvalid_is_violation=True)
    # consistency of the two specifications: MatchSem's prediction = GomlSem's outcome
    nonexh = overlap = 0
    for c in cases:
        if c.get("matchsem_out") is not None and c.get("oracle") and c["oracle"]["status"] in ("ok", "failed"):
            if c["oracle"]["out"].decode() != c["matchsem_out"] or c["oracle"]["status"] != c["matchsem_status"]:
                raise ToolError(f"specification inconsistency MatchSem vs GomlSem on {c['ident']}: {c['matchsem_out']!r} vs {c['oracle']['out']!r}")
        m = c.get("matrix")
        if m is None:
            continue
        if any(x["res"]["arm"] == 0 for x in m["cases"]):
            nonexh += 1
        if len({x["res"]["arm"] for x in m["cases"]}) < len(m["rows"]):
            overlap += 1
    rep.coverage["states"] += r.distinct
    rep.coverage["transitions"] += r.generated
    rep.coverage["traces_validated_against_impl"] = counts.get("agree", 0) + counts.get("differ", 0)
    rep.coverage["matrices_nonexhaustive"] = nonexh
    rep.coverage["matrices_with_unreachable_row"] = overlap
    rep.coverage["action_coverage"] = r.coverage
    rep.assumptions += famcheck.STD_ASSUMPTIONS + ["matrices: <= 4 rows, pattern depth 2, sampled by TLC simulation from the generator machine (exhaustive model check for <= 2 rows, depth 1)"]
    if counts.get("agree", 0) < 100:
        raise ToolError("vacuity: fewer than 100 matrices compared")
