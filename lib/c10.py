"""C10 — numbers mean what they say: literals, widths, wrap-around, comparison, printing.

IntN.tla (exact integers, N-bit wrap, truncated division, decimal rendering) is the arithmetic both semantic machines
use; it is first checked against reference vectors and exhaustively against TLC's native arithmetic for 8 bits
(IntNTest.tla).  The family instantiates every literal spelling at every integer type (in/out of range, suffixed /
annotated / inferred, leading zeros), every arithmetic and comparison operator on boundary operands (through functions,
and directly on literals), negation, division by zero, mixed widths and the dyadic float fragment; accept/reject
verdicts and printed values must equal GomlSem's."""
import json, random
from common import *
import famcheck, fam_c10

LEVEL = "model_checking"


def intn_selftest():
    rnd = random.Random(seed() + 10)
    def enc(n): return {"neg": n < 0, "ds": [int(c) for c in str(abs(n))]}
    def wrap(n, bits, signed):
        if bits == 0: return n
        n %= (1 << bits)
        return n - (1 << bits) if signed and n >= 1 << (bits - 1) else n
    def tdiv(a, b):
        q = abs(a) // abs(b); return -q if (a < 0) != (b < 0) else q
    vec = []
    edge = [0, 1, -1, 127, 128, 255, 256, -128, -129, 32767, 65535, 2**29, -2**29, 2**31 - 1, 2**31, -2**31, 2**32 - 1, 2**63 - 1, 2**63, -2**63, 2**64 - 1]
    for _ in range(1500):
        a = rnd.choice(edge) if rnd.random() < 0.4 else rnd.randint(-2**64, 2**64)
        b = rnd.choice(edge) if rnd.random() < 0.4 else rnd.randint(-2**33, 2**33)
        op = rnd.choice(["add", "sub", "mul", "div", "rem", "neg", "wrap", "cmp"])
        bits, signed = rnd.choice([(0, False), (32, True), (32, False), (64, True), (64, False), (16, True), (16, False), (8, True), (8, False)])
        if op == "cmp": bits = 0
        if op in ("div", "rem") and b == 0: continue
        r = {"add": a + b, "sub": a - b, "mul": a * b, "neg": -a, "wrap": a, "cmp": (a > b) - (a < b)}.get(op)
        if op == "div": r = tdiv(a, b)
        if op == "rem": r = a - tdiv(a, b) * b
        r = wrap(r, bits, signed)
        vec.append({"op": op, "a": enc(a), "b": enc(b), "bits": bits, "signed": signed, "r": enc(r), "dec": [ord(c) for c in str(r)]})
    d = workdir("c10-intn")
    write_lines(d + "/vec.ndjson", vec)
    r = run_tlc("IntNTest", "IntNTest.cfg", env={"VECTORS": d + "/vec.ndjson"}, xss="512m", timeout=1200)
    if r.rc != 0:
        raise ToolError("IntN self-test failed (my arithmetic specification is wrong): " + (r.violated or r.error or r.stdout[-800:]))
    return len(vec), r


FLOAT_LITS = ["0.1", "0.2", "0.3", "1.1", "3.3", "2.675", "16777217.0", "0.30000000000000004", "123456789.125", "1.0000001", "9007199254740993.0",
              "0.5", "4.0", "100.25", "0.000001", "33554433.0", "1.7976931348623157", "5.960464477539063"]


def float_literals(rep, tier):
    """A float literal denotes the double (float32 for f32) nearest to its decimal text, whatever its suffix and position.
    TLA+ has no floats, so this is checked on the text: the literal the emitted Go carries must round to the same value."""
    import re, struct
    f32 = lambda x: struct.unpack("f", struct.pack("f", x))[0]
    reqs, meta = [], []
    d = workdir("c10-floatlit")
    forms = [("f64-suffix", "{l}f64", "float64", ""), ("unsuffixed", "{l}", "float64", ""), ("annotated", "{l}", "float64", ": float64"),
             ("f32-suffix", "{l}f32", "float32", ""), ("f32-suffix-annotated", "{l}f32", "float32", ": float32")]
    for l in FLOAT_LITS:
        for fname, spell, ty, ann in forms:
            if ty == "float32" and float(l) > 3e38:
                continue
            text = (f"fn pass(x: {ty}) -> {ty} {{ x }}\nfn main() {{\n    let a{ann} = {spell.format(l=l)};\n    let b = pass({spell.format(l=l) if 'suffix' in fname else l});\n"
                    f"    let _ = string_println({ty}_to_string(a));\n    let _ = string_println({ty}_to_string(b));\n    ()\n}}\n")
            reqs.append({"id": len(reqs), "text": text, "dir": d})
            meta.append((l, fname, ty, text))
    res = gv_parallel("compile", reqs)
    checked = unread = 0
    for (l, fname, ty, text), r in zip(meta, res):
        ident = f"c10:float-literal:{fname}:{l}"
        if r["verdict"] != "ok":
            rep.violation(ident + ":rejected", {"source": text, "diagnostics": [x["msg"] for x in r.get("diags", [])][:3]})
            continue
        # the program holds the literal twice (a let and a call argument) and no other number:
        # every such constant in the emitted main must denote the source literal, however the Go around it is shaped
        body = r["go"][r["go"].find("func main"):]
        lits = re.findall(r"(?<![\w.])(-?\d+(?:\.\d*)?(?:[eE][+-]?\d+)?)(?![\w.])", body)
        if len(lits) < 2:
            unread += 1
            continue
        want = f32(float(l)) if ty == "float32" else float(l)
        for g in lits:
            got = f32(float(g)) if ty == "float32" else float(g)
            checked += 1
            if got != want:
                rep.violation(ident + ":constant", {"source": text, "source_literal": l, "go_literal": g, "denotes": repr(got), "should_denote": repr(want)})
    # out-of-range float literals are rejected (the lexer has no exponent form: they are written with all their digits)
    big = {"float32": ["1" + "0" * 39 + ".0", "340282360000000000000000000000000000000.0", "9" * 45 + ".5"], "float64": ["1" + "0" * 309 + ".0", "2" + "0" * 400 + ".25"]}
    oreqs = []
    for ty, lits_ in big.items():
        suf = "f32" if ty == "float32" else "f64"
        for k_, l in enumerate(lits_):
            for form, stmt in (("suffix", f"let a = {l}{suf};"), ("annotated", f"let a: {ty} = {l};"), ("argument", f"let a = pass({l}{suf});"), ("negated", f"let a = -{l}{suf};")):
                oreqs.append({"id": f"{ty}:{form}:{k_}", "dir": d,
                              "text": f"fn pass(x: {ty}) -> {ty} {{ x }}\nfn main() {{\n    {stmt}\n    let _ = string_println({ty}_to_string(a));\n    ()\n}}\n"})
    out_rejected = 0
    for q, r in zip(oreqs, gv_parallel("compile", oreqs)):
        if r["verdict"] == "ok":
            rep.violation(f"c10:float-literal-out-of-range:accepted:{q['id'].rsplit(':', 1)[0]}", {"source": q["text"][:300], "go": r["go"][r["go"].find("func main0"):][:300]})
        elif r["verdict"] in ("panic", "timeout"):
            rep.violation(f"c10:float-literal-out-of-range:{r['verdict']}:{q['id'].rsplit(':', 1)[0]}", {"source": q["text"][:300], "at": r.get("at")})
        else:
            out_rejected += 1
    rep.coverage["float_literals_out_of_range_rejected"] = out_rejected
    rep.coverage["float_literal_denotations_checked"] = checked
    rep.coverage["float_literal_programs_whose_go_shows_no_constant"] = unread
    if checked < 100:
        raise ToolError("vacuity: float literal denotations")


def run(tier, rep):
    build_harness()
    nvec, r = intn_selftest()
    progs = fam_c10.programs(tier)
    cases, counts = famcheck.run_families("C10", rep, progs, "c10", maxsteps=60000, goinvalid_is_violation=True)
    float_literals(rep, tier)
    rep.coverage["states"] += r.distinct
    rep.coverage["transitions"] += r.generated
    rep.coverage["intn_reference_vectors"] = nvec
    rep.coverage["traces_validated_against_impl"] = counts.get("agree", 0) + counts.get("differ", 0) + counts.get("rejected", 0)
    rep.assumptions += famcheck.STD_ASSUMPTIONS + ["float32/float64 only on exactly representable dyadic values; IEEE rounding is not modelled (TLA+ has no floats)"]
    if counts.get("agree", 0) < 40:
        raise ToolError("vacuity: fewer than 40 numeric programs compared")
