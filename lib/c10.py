"""C10 — numbers mean what they say: literals, widths, wrap-around, comparison, printing.

IntN.tla (exact integers, N-bit wrap, truncated division, decimal rendering) is the arithmetic both semantic machines
use; it is first checked against reference vectors and exhaustively against TLC's native arithmetic for 8 bits
(IntNTest.tla).  The family instantiates every literal spelling at every integer type (in/out of range, suffixed /
annotated / inferred, leading zeros), every arithmetic and comparison operator on boundary operands (through functions,
and directly on literals), negation, division by zero, mixed widths and the dyadic float fragment; accept/reject
verdicts and printed values must equal GomlSem's."""
import json, random
from common import *
import famcheck, fam_c10

LEVEL = "model_checking"


def intn_selftest():
    rnd = random.Random(seed() + 10)
    def enc(n): return {"neg": n < 0, "ds": [int(c) for c in str(abs(n))]}
    def wrap(n, bits, signed):
        if bits == 0: return n
        n %= (1 << bits)
        return n - (1 << bits) if signed and n >= 1 << (bits - 1) else n
    def tdiv(a, b):
        q = abs(a) // abs(b); return -q if (a < 0) != (b < 0) else q
    vec = []
    edge = [0, 1, -1, 127, 128, 255, 256, -128, -129, 32767, 65535, 2**29, -2**29, 2**31 - 1, 2**31, -2**31, 2**32 - 1, 2**63 - 1, 2**63, -2**63, 2**64 - 1]
    for _ in range(1500):
        a = rnd.choice(edge) if rnd.random() < 0.4 else rnd.randint(-2**64, 2**64)
        b = rnd.choice(edge) if rnd.random() < 0.4 else rnd.randint(-2**33, 2**33)
        op = rnd.choice(["add", "sub", "mul", "div", "rem", "neg", "wrap", "cmp"])
        bits, signed = rnd.choice([(0, False), (32, True), (32, False), (64, True), (64, False), (16, True), (16, False), (8, True), (8, False)])
        if op == "cmp": bits = 0
        if op in ("div", "rem") and b == 0: continue
        r = {"add": a + b, "sub": a - b, "mul": a * b, "neg": -a, "wrap": a, "cmp": (a > b) - (a < b)}.get(op)
        if op == "div": r = tdiv(a, b)
        if op == "rem": r = a - tdiv(a, b) * b
        r = wrap(r, bits, signed)
        vec.append({"op": op, "a": enc(a), "b": enc(b), "bits": bits, "signed": signed, "r": enc(r), "dec": [ord(c) for c in str(r)]})
    d = workdir("c10-intn")
    write_lines(d + "/vec.ndjson", vec)
    r = run_tlc("IntNTest", "IntNTest.cfg", env={"VECTORS": d + "/vec.ndjson"}, xss="512m", timeout=1200)
    if r.rc != 0:
        raise ToolError("IntN self-test failed (my arithmetic specification is wrong): " + (r.violated or r.error or r.stdout[-800:]))
    return len(vec), r


FLOAT_LITS = ["0.1", "0.2", "0.3", "1.1", "3.3", "2.675", "16777217.0", "0.30000000000000004", "123456789.125", "1.0000001", "9007199254740993.0",
              "0.5", "4.0", "100.25", "0.000001", "33554433.0", "1.7976931348623157", "5.960464477539063"]


def float_literals(rep, tier):
    """A float literal denotes the double (float32 for f32) nearest to its decimal text, whatever its suffix and position.
    TLA+ has no floats, so this is checked on the text: the literal the emitted Go carries must round to the same value."""
    import re, struct
    f32 = lambda x: struct.unpack("f", struct.pack("f", x))[0]
    reqs, meta = [], []
    d = workdir("c10-floatlit")
    forms = [("f64-suffix", "{l}f64", "float64", ""), ("unsuffixed", "{l}", "float64", ""), ("annotated", "{l}", "float64", ": float64"),
             ("f32-suffix", "{l}f32", "float32", ""), ("f32-suffix-annotated", "{l}f32", "float32", ": float32")]
    for l in FLOAT_LITS:
        for fname, spell, ty, ann in forms:
            if ty == "float32" and float(l) > 3e38:
                continue
            text = (f"fn pass(x: {ty}) -> {ty} {{ x }}\nfn main() {{\n    let a{ann} = {spell.format(l=l)};\n    let b = pass({spell.format(l=l) if 'suffix' in fname else l});\n"
                    f"    let _ = string_println({ty}_to_string(a));\n    let _ = string_println({ty}_to_string(b));\n    ()\n}}\n")
            reqs.append({"id": len(reqs), "text": text, "dir": d})
            meta.append((l, fname, ty, text))
    res = gv_parallel("compile", reqs)
    checked = unread = 0
    for (l, fname, ty, text), r in zip(meta, res):
        ident = f"c10:float-literal:{fname}:{l}"
        if r["verdict"] != "ok":
            rep.violation(ident + ":rejected", {"source": text, "diagnostics": [x["msg"] for x in r.get("diags", [])][:3]})
            continue
        # the program holds the literal twice (a let and a call argument) and no other number:
        # every such constant in the emitted main must denote the source literal, however the Go around it is shaped
        body = r["go"][r["go"].find("func main"):]
        lits = re.findall(r"(?<![\w.])(-?\d+(?:\.\d*)?(?:[eE][+-]?\d+)?)(?![\w.])", body)
        if len(lits) < 2:
            unread += 1
            continue
        want = f32(float(l)) if ty == "float32" else float(l)
        for g in lits:
            got = f32(float(g)) if ty == "float32" else float(g)
            checked += 1
            if got != want:
                rep.violation(ident + ":constant", {"source": text, "source_literal": l, "go_literal": g, "denotes": repr(got), "should_denote": repr(want)})
    # out-of-range float literals are rejected (the lexer has no exponent form: they are written with all their digits)
    big = {"float32": ["1" + "0" * 39 + ".0", "340282360000000000000000000000000000000.0", "9" * 45 + ".5"], "float64": ["1" + "0" * 309 + ".0", "2" + "0" * 400 + ".25"]}
    oreqs = []
    for ty, lits_ in big.items():
        suf = "f32" if ty == "float32" else "f64"
        for k_, l in enumerate(lits_):
            for form, stmt in (("suffix", f"let a = {l}{suf};"), ("annotated", f"let a: {ty} = {l};"), ("argument", f"let a = pass({l}{suf});"), ("negated", f"let a = -{l}{suf};")):
                oreqs.append({"id": f"{ty}:{form}:{k_}", "dir": d,
                              "text": f"fn pass(x: {ty}) -> {ty} {{ x }}\nfn main() {{\n    {stmt}\n    let _ = string_println({ty}_to_string(a));\n    ()\n}}\n"})
    out_rejected = 0
    for q, r in zip(oreqs, gv_parallel("compile", oreqs)):
        if r["verdict"] == "ok":
            rep.violation(f"c10:float-literal-out-of-range:accepted:{q['id'].rsplit(':', 1)[0]}", {"source": q["text"][:300], "go": r["go"][r["go"].find("func main0"):][:300]})
        elif r["verdict"] in ("panic", "timeout"):
            rep.violation(f"c10:float-literal-out-of-range:{r['verdict']}:{q['id'].rsplit(':', 1)[0]}", {"source": q["text"][:300], "at": r.get("at")})
        else:
            out_rejected += 1
    rep.coverage["float_literals_out_of_range_rejected"] = out_rejected
    rep.coverage["float_literal_denotations_checked"] = checked
    rep.coverage["float_literal_programs_whose_go_shows_no_constant"] = unread
    if checked < 100:
        raise ToolError("vacuity: float literal denotations")


# ---- Go constant expressions over float literals
# ANF leaves literal operands in place, so `0.1f32 * 0.3f32` reaches the Go text as an operator between two literals: a Go
# *constant expression*.  Go evaluates constant expressions exactly (arbitrary precision, no intermediate rounding; `/` between
# two integer-looking constants is integer division) and rounds once, to the type of the variable that receives the result.
# The source means the IEEE operation on the two float32 values.  The two agree when every literal operand the Go text
# carries is itself exactly a binary32 value (then one rounding of the exact result is the IEEE result); the rule below does
# not assume that, it computes both sides and reports whether the operands are binary32 values in the detail.  The computation
# needs exact rationals with numerators of 24 to a few hundred bits: TLC's integers are 32-bit (DESIGN.md section 7), so this
# rule is evaluated here with Python's `fractions` and not by a TLA+ module.  It is the definition
#     GoConst(op, g1, g2) = Round32(g1 op g2)      Source(op, a, b) = Round32(Round32(a) op Round32(b))
# and the requirement GoConst(op, g1, g2) = Source(op, a, b) for the literals g1, g2 emitted for the source literals a, b.
FLOAT_CONST_LITS = ["0.1", "0.2", "0.3", "0.7", "1.1", "3.3", "2.675", "0.01", "1.0000001", "16777217.0", "0.5", "4.0", "100.25", "7.0", "123456.789"]
ARITH = {"+": "add", "-": "sub", "*": "mul", "/": "div"}
CMP = {"<": "lt", "<=": "le", ">": "gt", ">=": "ge", "==": "eq", "!=": "ne"}


def round_binary(fr, p=24, emin=-126, emax=127):
    """round-to-nearest-even of the rational fr to the binary format with p significant bits (binary32 by default; subnormals
    included); None when the magnitude overflows the format"""
    from fractions import Fraction
    fr = Fraction(fr)
    if fr == 0:
        return Fraction(0)
    a = abs(fr)
    e = a.numerator.bit_length() - a.denominator.bit_length()
    while Fraction(2) ** e > a:
        e -= 1
    while Fraction(2) ** (e + 1) <= a:
        e += 1
    e = max(e, emin)
    ulp = Fraction(2) ** (e - p + 1)
    n = a / ulp
    m = n.numerator // n.denominator
    rem = n - m
    if rem > Fraction(1, 2) or (rem == Fraction(1, 2) and m % 2 == 1):
        m += 1
    r = m * ulp
    if r >= Fraction(2) ** (emax + 1):
        return None
    return -r if fr < 0 else r


def near_tie(v, p=24, emin=-126):
    """v (exact rational) lies within 2^-26 ulp of the midpoint of two adjacent values of the binary format"""
    from fractions import Fraction
    a = abs(Fraction(v))
    if a == 0:
        return False
    e = a.numerator.bit_length() - a.denominator.bit_length()
    while Fraction(2) ** e > a:
        e -= 1
    while Fraction(2) ** (e + 1) <= a:
        e += 1
    n = a / Fraction(2) ** (max(e, emin) - p + 1)
    rem = n - n.numerator // n.denominator
    return abs(rem - Fraction(1, 2)) <= Fraction(1, 2 ** 26)


def go_constant_fold(op, l, r):
    """value of the Go constant expression `l op r` for two numeric literal tokens {"k": "int"|"float", "v": text}: a Fraction
    (a bool for comparisons), or None where Go rejects the expression (division by zero)"""
    from fractions import Fraction
    a, b = Fraction(l["v"]), Fraction(r["v"])
    if op == "/":
        if b == 0:
            return None
        if l["k"] == "int" and r["k"] == "int":      # both operands are integer constants: integer division, truncated
            q = abs(a.numerator) // abs(b.numerator)
            return Fraction(-q if (a < 0) != (b < 0) else q)
        return a / b
    return {"+": lambda: a + b, "-": lambda: a - b, "*": lambda: a * b, "<": lambda: a < b, "<=": lambda: a <= b, ">": lambda: a > b,
            ">=": lambda: a >= b, "==": lambda: a == b, "!=": lambda: a != b}[op]()


def float_constant_expressions(rep, tier):
    """An operator written directly between two float32 literals computes the float32 operation (C10: `float32 operations
    round to single precision`, literals denote the nearest float32), at every position: annotated let, call argument,
    argument of a builtin, condition."""
    from fractions import Fraction
    import goparse
    d = workdir("c10-floatconst")
    lits = FLOAT_CONST_LITS if tier != "quick" else FLOAT_CONST_LITS[:11]
    integral = lambda x: Fraction(x).denominator == 1
    reqs, meta = [], []
    for a in lits:
        for b in lits:
            for op, on in ARITH.items():
                # (`7.0f32 / 2.0f32` was emitted as the integer constant division `7 / 2` until fix d391ce0: the class stays in)
                text = (f"fn pass(x: float32) -> float32 {{ x }}\nfn main() {{\n    let r: float32 = {a}f32 {op} {b}f32;\n"
                        f"    let _ = string_println(float32_to_string(r));\n    let _ = string_println(float32_to_string({a}f32 {op} {b}f32));\n"
                        f"    let _ = string_println(float32_to_string(pass({a}f32 {op} {b}f32)));\n    ()\n}}\n")
                reqs.append({"id": len(reqs), "text": text, "dir": d})
                meta.append((on, op, a, b, text))
    # float64 is EXCLUDED from this rule (genuine defect of the unchanged tree, reported): a float64 literal is written into the
    # Go text as the shortest decimal that identifies the double (`0.1`), which is not the double itself, so `0.1 + 0.2` is
    # folded by Go to exactly 0.3 where the float64 addition gives 0.30000000000000004 (and `add(0.1, 0.2)` through a function
    # does give that).  The float32 literals are written with the digits of the widened value and are not affected.
    #
    # comparisons: pairs that are different reals but the same float32, and ordinary pairs
    cmp_pairs = [("0.1", "0.10000000001"), ("16777217.0", "16777216.0"), ("0.3", "0.30000001"), ("0.1", "0.2"), ("0.7", "0.7"), ("1.1", "1.0000001"),
                 ("33554433.0", "33554432.0"), ("0.5", "0.25")]
    for a, b in cmp_pairs if tier != "quick" else cmp_pairs[:5]:
        for op, on in CMP.items():
            text = (f"fn main() {{\n    let r: bool = {a}f32 {op} {b}f32;\n    let _ = string_println(bool_to_string(r));\n"
                    f"    let _ = string_println(bool_to_string({b}f32 {op} {a}f32));\n"
                    f'    let _ = if {a}f32 {op} {b}f32 {{ string_println("yes") }} else {{ string_println("no") }};\n    ()\n}}\n')
            reqs.append({"id": len(reqs), "text": text, "dir": d})
            meta.append((on, op, a, b, text))

    def bins(x, acc):
        if isinstance(x, dict):
            if x.get("k") == "bin" and x["l"].get("k") in ("int", "float") and x["r"].get("k") in ("int", "float"):
                acc.append(x)
            for v in x.values():
                bins(v, acc)
        elif isinstance(x, list):
            for v in x:
                bins(v, acc)
        return acc

    checked = unread = ties = 0
    for (on, op, a, b, text), r in zip(meta, gv_parallel("compile", reqs)):
        ident = f"c10:float32-constant-expression:{on}:{a}:{b}"
        if r["verdict"] != "ok":
            rep.violation(ident + ":rejected", {"source": text, "diagnostics": [x["msg"] for x in r.get("diags", [])][:3], "at": r.get("at")})
            continue
        try:
            found = bins(goparse.parse(r["go"]), [])
        except goparse.GoSyntaxError:
            unread += 1        # C02's business
            continue
        if not found:
            unread += 1        # the operation was not emitted as a constant expression (temporaries, or folded by the compiler)
            continue
        fa, fb = round_binary(Fraction(a)), round_binary(Fraction(b))
        for x in found:
            # the program holds one operator and two literals: every constant expression in the Go text is that operation, in
            # either operand order (the comparison programs also hold the swapped one)
            ga, gb = round_binary(Fraction(x["l"]["v"])), round_binary(Fraction(x["r"]["v"]))
            shown = f'{x["l"]["v"]} {x["op"]} {x["r"]["v"]}'
            if x["op"] != op or (ga, gb) not in (((fa, fb), (fb, fa)) if op in CMP else ((fa, fb),)):
                rep.violation(ident + ":operands", {"source": text, "go_expression": shown,
                                                    "note": "the constant expression does not carry the operator and the float32 values of the source"})
                continue
            want = go_constant_fold(op, {"k": "float", "v": str(ga)}, {"k": "float", "v": str(gb)})   # IEEE: exact on the float32 values, ...
            got = go_constant_fold(op, x["l"], x["r"])
            if want is None or got is None:
                continue
            if op in ARITH:
                if near_tie(want):
                    # EXCLUDED (genuine defect of the unchanged tree, reported): the exact result of the operation on the two
                    # float32 values lies half-way between two adjacent float32 values (ties are frequent for + and -).  The Go
                    # text carries each float32 literal as the 17-digit decimal of the widened value, which is off the float32
                    # value by up to 2^-54 relative; Go's exact folding keeps that offset and it decides the tie, where the
                    # float32 operation rounds the tie to even (`0.2f32 - 0.7f32` gives -0.49999997 as a constant, -0.5 at run time)
                    ties += 1
                    g1 = round_binary(got)
                    w1 = round_binary(want)
                    if g1 is not None and w1 is not None and g1 != w1:
                        rep.violation(ident + ":tie", {"source": text, "go_expression": shown, "go_constant_value": repr(float(g1)),
                                                       "float32_operation_value": repr(float(w1))})
                    continue
                want, got = round_binary(want), round_binary(got)                                   # ... rounded once
                if want is None or got is None:
                    continue
            checked += 1
            if got != want:
                rep.violation(ident + ":value", {"source": text, "go_expression": shown,
                                                 "go_constant_value": repr(float(got)) if op in ARITH else got,
                                                 "float32_operation_value": repr(float(want)) if op in ARITH else want,
                                                 "literal_operands_are_float32_values": [Fraction(x["l"]["v"]) == ga, Fraction(x["r"]["v"]) == gb]})
    # ---- float64: a literal is written as the shortest decimal that identifies the double, which Go folds exactly
    f64 = [("0.1", "+", "0.2"), ("0.1", "*", "3.0"), ("0.7", "-", "0.1"), ("1.0", "/", "3.0"), ("0.5", "+", "0.25"), ("4.0", "/", "3.0"), ("2.0", "*", "8.0")]
    reqs64 = [{"id": i, "text": f"fn main() {{\n    let r: float64 = {a} {op} {b};\n    let _ = string_println(float64_to_string(r));\n    ()\n}}\n", "dir": d} for i, (a, op, b) in enumerate(f64)]
    on64 = {"+": "add", "-": "sub", "*": "mul", "/": "div"}
    checked64 = 0
    for (a, op, b), r in zip(f64, gv_parallel("compile", reqs64)):
        ident = f"c10:float64-constant-expression:{on64[op]}:{a}:{b}"
        if r["verdict"] != "ok":
            rep.violation(ident + ":rejected", {"diagnostics": [x["msg"] for x in r.get("diags", [])][:3]})
            continue
        try:
            found = bins(goparse.parse(r["go"]), [])
        except goparse.GoSyntaxError:
            continue
        da, db = round_binary(Fraction(a), 53, -1022, 1023), round_binary(Fraction(b), 53, -1022, 1023)
        for x in found:
            want = go_constant_fold(op, {"k": "float", "v": str(da)}, {"k": "float", "v": str(db)})
            got = go_constant_fold(op, x["l"], x["r"])
            if want is None or got is None:
                continue
            want, got = round_binary(want, 53, -1022, 1023), round_binary(got, 53, -1022, 1023)
            checked64 += 1
            if want != got:
                rep.violation(ident + ":value", {"go_expression": f'{x["l"]["v"]} {x["op"]} {x["r"]["v"]}', "go_constant_value": repr(float(got)), "float64_operation_value": repr(float(want))})
    rep.coverage["float64_constant_expressions_checked"] = checked64
    rep.coverage["float32_constant_expressions_checked"] = checked
    rep.coverage["float32_constant_expression_programs_without_one"] = unread
    rep.coverage["float32_constant_expressions_excluded_as_ties"] = ties
    if checked < 100:
        raise ToolError("vacuity: float32 constant expressions")


def run(tier, rep):
    build_harness()
    nvec, r = intn_selftest()
    progs = fam_c10.programs(tier)
    cases, counts = famcheck.run_families("C10", rep, progs, "c10", maxsteps=60000, goinvalid_is_violation=True)
    float_literals(rep, tier)
    float_constant_expressions(rep, tier)
    rep.coverage["states"] += r.distinct
    rep.coverage["transitions"] += r.generated
    rep.coverage["intn_reference_vectors"] = nvec
    rep.coverage["traces_validated_against_impl"] = counts.get("agree", 0) + counts.get("differ", 0) + counts.get("rejected", 0)
    rep.assumptions += famcheck.STD_ASSUMPTIONS + ["float32/float64 only on exactly representable dyadic values; IEEE rounding is not modelled (TLA+ has no floats)"]
    if counts.get("agree", 0) < 40:
        raise ToolError("vacuity: fewer than 40 numeric programs compared")
