"""C12 — the syntax tree is lossless and positions are exact.

spec/TreeBuilder.tla models build_tree's event replay (Advance takes the token under the cursor, trivia is attached
after every event) and the fuel discipline; TLC checks for all token/event lists up to a bound that the leaves are
always an in-order prefix of the tokens, that the tree is lossless iff there is one Advance per significant token and
what is lost otherwise.  Every input text (all strings of <= 3 symbols over a 27-symbol lexical alphabet, seeded
mutations of the corpus) is lexed and parsed by the real code; tokens, events, tree leaves and diagnostics are recorded
and validated by TreeTrace.tla: the leaves re-derived from tokens+events must equal the recorded tree's leaves; token
ranges must tile the text on character boundaries; tree text = input; every range within the text; two parses equal."""
import itertools, os, random
from common import *
import corpus, gopipe

LEVEL = "model_checking"

ALPHABET = ["fn", "let", "x", "1", "1.5", "2i8", '"s"', '"', "\\\\m\n", "\\", "(", ")", "{", "}", "[", ",", ";", ".", "+", "-", "=", "|",
            " ", "\n", "// c\n", "é", "😀", "@", "::", "=>", "\r\n", "\r", "\t"]


def texts(tier, rnd):
    out = []
    n = 2 if tier == "quick" else 3
    for k in range(0, n + 1):
        for combo in itertools.product(ALPHABET, repeat=k):
            out.append("".join(combo))
    # length-3 (quick) / length-4 (thorough) strings: seeded sample
    extra = 6000 if tier == "quick" else 40000
    for _ in range(extra):
        k = n + 1
        out.append("".join(rnd.choice(ALPHABET) for _ in range(k)))
    # embedded in a function body (exercises expression / statement recovery paths)
    for _ in range(1500 if tier == "quick" else 12000):
        k = rnd.randint(1, 5)
        out.append("fn f() { " + " ".join(rnd.choice(ALPHABET) for _ in range(k)) + " }")
    # corpus files and seeded mutations of them (byte-level: delete / duplicate / swap / insert alphabet symbol; cut at a char boundary)
    srcs = [open(c["src"], encoding="utf-8").read() for c in corpus.single_file_cases()]
    out += srcs
    # the same files with Windows line endings, with a byte-order mark, and with tabs for indentation
    out += [s.replace("\n", "\r\n") for s in srcs[:: (6 if tier == "quick" else 1)]]
    out += ["\ufeff" + s for s in srcs[:: (12 if tier == "quick" else 2)]]
    out += [s.replace("    ", "\t") for s in srcs[:: (12 if tier == "quick" else 2)]]
    for _ in range(400 if tier == "quick" else 6000):
        s = rnd.choice(srcs)
        for _ in range(rnd.randint(1, 3)):
            if not s:
                break
            i = rnd.randrange(len(s))
            op = rnd.choice(["del", "dup", "ins", "cut", "swap"])
            if op == "del":
                s = s[:i] + s[i + rnd.randint(1, 4):]
            elif op == "dup":
                j = min(len(s), i + rnd.randint(1, 12))
                s = s[:j] + s[i:j] + s[j:]
            elif op == "ins":
                s = s[:i] + rnd.choice(ALPHABET) + s[i:]
            elif op == "cut":
                s = s[:i]
            else:
                j = rnd.randrange(len(s))
                a, b = min(i, j), max(i, j)
                s = s[:a] + s[b:b + 1] + s[a + 1:b] + s[a:a + 1] + s[b + 1:]
        out.append(s)
    return out


def run(tier, rep):
    build_harness()
    rnd = rng(12)
    r = run_tlc("TreeBuilder", "TreeBuilder.cfg", workers=8, xmx="8g", coverage=True, timeout=1800)
    if not tlc_ok(r, "TreeBuilder"):
        rep.violation(f"model:TreeBuilder:{r.violated}", {"trace": r.trace[-2:]})
    for a in ("Step", "Peek"):
        if r.coverage.get(a, 0) == 0:
            raise ToolError(f"vacuity: TreeBuilder action {a} never taken")
    ts = texts(tier, rnd)
    reqs = [{"id": i, "mode": "cst", "bytes": list(t.encode("utf-8"))} for i, t in enumerate(ts)]
    answers = gv_parallel("parse", reqs, shards=NCPU)
    recs = []
    crash = 0
    for t, a in zip(ts, answers):
        if a["verdict"] != "ok":
            crash += 1
            rep.violation(f"parse-{a['verdict']}:{a.get('at')}", {"text": t[:300], "msg": a.get("msg")}, replay={"text": t})
            continue
        for d in a["diags"]:
            if d["s"] is None:
                d["s"], d["e"] = -1, -1
        a["diags"] = [{"s": d["s"], "e": d["e"]} for d in a["diags"]]
        a["tokens"] = [{"s": x["s"], "e": x["e"], "triv": x["triv"], "textlen": x["textlen"]} for x in a["tokens"]]
        a["events"] = [{"ev": x["ev"]} for x in a["events"]]
        a["leaves"] = [{"s": x["s"], "e": x["e"]} for x in a["leaves"]]
        recs.append(a)
    # ---- trace validation by TLC, sharded
    shards = NCPU
    chunks = [recs[i::shards] for i in range(shards)]
    d = workdir("c12-traces")
    import threading
    results = [None] * shards

    def go(i):
        path = os.path.join(d, f"t{i}.ndjson")
        write_lines(path, chunks[i])
        try:
            results[i] = run_tlc("TreeTrace", "TreeTrace.cfg", env={"TRACES": path}, workers=1, xmx="3g", timeout=3000, xss="256m", name=f"treetrace-{i}")
        except ToolError as e:
            results[i] = e
    th = [threading.Thread(target=go, args=(i,)) for i in range(shards) if chunks[i]]
    [t.start() for t in th]
    [t.join() for t in th]
    states = trans = 0
    nonconf = 0
    for i, rr in enumerate(results):
        if rr is None:
            continue
        if isinstance(rr, Exception):
            raise rr
        if rr.rc != 0:
            raise ToolError("TreeTrace failed: " + (rr.error or rr.stdout[-1500:]))
        if rr.generated != len(chunks[i]):
            raise ToolError(f"TreeTrace consumed {rr.generated} of {len(chunks[i])} records")
        states += rr.distinct
        trans += rr.generated
        for nc in rr.json_prints("NONCONFORM"):
            nonconf += 1
            bad = sorted(k for k, v in nc["verdict"].items() if not v)
            text = ts[nc["id"]]
            rep.violation("nonconform:" + "+".join(bad), {"text": text[:400], "verdict": nc["verdict"]}, replay={"text": text})
    with_err = sum(1 for a in recs if a["diags"])
    multibyte = sum(1 for a in recs if not all(a["char_boundary"]))
    for t in ts[40:43]:
        rep.sample({"text": t})
    rep.coverage.update({"states": r.distinct + states, "transitions": r.generated + trans, "traces_validated_against_impl": len(recs),
                         "texts": len(ts), "texts_with_diagnostics": with_err, "texts_with_multibyte_chars": multibyte,
                         "action_coverage": r.coverage, "alphabet": len(ALPHABET), "nonconforming": nonconf})
    rep.assumptions += ["exhaustive over the alphabet up to 2 (quick) / 3 (thorough) symbols, sampled beyond; corpus mutations are seeded",
                        "the builder model is checked for <= 4 tokens and <= 5 events"]
    if with_err < 100 or multibyte < 100:
        raise ToolError("vacuity: too few erroneous or multi-byte inputs")
