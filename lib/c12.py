"""C12 — the syntax tree is lossless and positions are exact.

spec/TreeBuilder.tla models build_tree's event replay (Advance takes the token under the cursor, trivia is attached
after every event) and the fuel discipline; TLC checks for all token/event lists up to a bound that the leaves are
always an in-order prefix of the tokens, that the tree is lossless iff there is one Advance per significant token and
what is lost otherwise.  Every input text (all strings of <= 3 symbols over a 27-symbol lexical alphabet, seeded
mutations of the corpus) is lexed and parsed by the real code; tokens, events, tree leaves and diagnostics are recorded
and validated by TreeTrace.tla: the leaves re-derived from tokens+events must equal the recorded tree's leaves; token
ranges must tile the text on character boundaries; tree text = input; every range within the text; two parses equal."""
import itertools, os, random
from common import *
import corpus, gopipe

LEVEL = "model_checking"

ALPHABET = ["fn", "let", "x", "1", "1.5", "2i8", '"s"', '"', "\\\\m\n", "\\", "(", ")", "{", "}", "[", ",", ";", ".", "+", "-", "=", "|",
            " ", "\n", "// c\n", "é", "😀", "@", "::", "=>", "\r\n", "\r", "\t"]


# ---------------------------------------------------------------- unclosed nesting (the parser's fuel: 256 lookups without a token consumed)
# opener (repeated d times) of every construct that nests and has to be closed later, in expression, type and pattern position
UNCLOSED_OPENERS = {
    "paren": "(", "bracket": "[", "call": "f(", "method": "a.m(", "tuple": "(1, ", "array": "[1, ", "args": "f(1, ", "neg-paren": "-(", "binop-paren": "1 + (",
    "if-block": "if true { ", "else-block": "if true { 1 } else { ", "while-block": "while true { ", "match-arm": "match 1 { _ => ", "match-block": "match 1 { _ => { ",
    "closure": "|a| ", "closure-paren": "|a| (", "closure-block": "|a| { ", "closure-call": "(|a| a)(", "struct-literal": "S { a: ", "let-block": "if true { let y = ",
    "mixed": None,
}
UNCLOSED_MIX = ["(", "[", "f(", "|a| { ", "if true { ", "match 1 { _ => "]
# what follows the innermost opener: a token `expect` refuses to swallow (or the end of the item), then further items
UNCLOSED_STOPS = {"semi": ";", "rbrace": "}", "rparen": ")", "rbracket": "]", "comma": ",", "let": "let z = 2;", "return": "return 1;", "item": ""}
UNCLOSED_TAIL = "\n    a\n}\n\nfn main() {\n    println(\"still here\")\n}\n"
UNCLOSED_EXPR_PRE = "fn g(a: int32) -> int32 {\n    let v = "
UNCLOSED_SHAPES = {          # position:construct -> (text before, opener, innermost operand)
    "type-param:generic": ("fn g(a: ", "Vec[", "int32"), "type-param:tuple": ("fn g(a: ", "(", "int32"), "type-param:fn": ("fn g(a: ", "(int32) -> (", "int32"),
    "type-let:generic": ("fn g(a: int32) -> int32 {\n    let v: ", "Vec[", "int32"), "type-let:tuple": ("fn g(a: int32) -> int32 {\n    let v: ", "(int32, ", "int32"),
    "type-result:generic": ("fn g(a: int32) -> ", "Vec[", "int32"), "type-field:generic": ("struct G { a: ", "Vec[", "int32"), "type-variant:tuple": ("enum G { A(", "(", "int32"),
    "pattern-let:tuple": ("fn g(a: int32) -> int32 {\n    let ", "(", "p"), "pattern-let:pair": ("fn g(a: int32) -> int32 {\n    let ", "(q, ", "p"),
    "pattern-arm:tuple": ("fn g(a: int32) -> int32 {\n    match a { ", "(", "p"), "pattern-arm:ctor": ("fn g(a: int32) -> int32 {\n    match a { ", "Some(", "p"),
    "impl-for:generic": ("impl T for ", "Vec[", "int32"),
}


def unclosed_texts(tier):
    """[(label, (d, stop), text)]: d = 8..160 unclosed nested constructs, then a stop token and further items.  Every text is a
    syntax error; the tree must still contain every byte (label = position:construct).
    The trace validation costs about (tokens + events)^2 per text, so the depth ladder of a construct stops where its text reaches
    ~1200 (quick) / ~4000 (thorough) tokens + events; beyond that only depth 160 itself is taken (two texts per construct)."""
    import re
    quick = tier == "quick"
    rungs = [8, 32, 33, 64, 65, 128, 160] if quick else sorted(set(range(8, 161, 8)) | {31, 33, 63, 65, 127, 129})
    out = []

    def sweep(label, pre, opener, atoms):
        per_level = 3 * len(re.findall(r"\s+|\w+|=>|->|[^\w\s]", opener(6))) // 6 + 3          # tokens (with blanks) + events per level, measured
        cap = max(8, min(160, (1200 if quick else 4000) // per_level))
        ladder = sorted({d for d in rungs if d <= cap} | {cap})
        for si, (stop, st) in enumerate(UNCLOSED_STOPS.items()):
            for di, d in enumerate(ladder):
                if quick and d != ladder[-1] and (si + di) % 2:
                    continue              # quick: every stop at the deepest rung, every other one below it
                for ai, atom in enumerate(atoms):
                    if quick and ai != (si + di // 2) % len(atoms):
                        continue          # quick: one innermost operand per (stop, depth), all of them over the sweep
                    out.append((label, (d, stop), pre + opener(d) + atom + st + UNCLOSED_TAIL))
        if not quick:                     # every depth in front of `;`
            out.extend((label, (d, "semi"), pre + opener(d) + atoms[0] + ";" + UNCLOSED_TAIL) for d in range(8, cap + 1) if d not in ladder)
        if cap < 160:
            out.extend((label, (160, stop), pre + opener(160) + atoms[0] + UNCLOSED_STOPS[stop] + UNCLOSED_TAIL) for stop in ("semi", "item"))
    for kind, op in UNCLOSED_OPENERS.items():
        sweep("expr:" + kind, UNCLOSED_EXPR_PRE,
              (lambda d: "".join(UNCLOSED_MIX[i % len(UNCLOSED_MIX)] for i in range(d))) if op is None else (lambda d, op=op: op * d), ("1", "", "x"))
    for label, (pre, op, atom) in UNCLOSED_SHAPES.items():
        sweep(label, pre, lambda d, op=op: op * d, (atom, ""))
    return out


def texts(tier, rnd):
    out = []
    n = 2 if tier == "quick" else 3
    for k in range(0, n + 1):
        for combo in itertools.product(ALPHABET, repeat=k):
            out.append("".join(combo))
    # length-3 (quick) / length-4 (thorough) strings: seeded sample
    extra = 6000 if tier == "quick" else 40000
    for _ in range(extra):
        k = n + 1
        out.append("".join(rnd.choice(ALPHABET) for _ in range(k)))
    # embedded in a function body (exercises expression / statement recovery paths)
    for _ in range(1500 if tier == "quick" else 12000):
        k = rnd.randint(1, 5)
        out.append("fn f() { " + " ".join(rnd.choice(ALPHABET) for _ in range(k)) + " }")
    # corpus files and seeded mutations of them (byte-level: delete / duplicate / swap / insert alphabet symbol; cut at a char boundary)
    srcs = [open(c["src"], encoding="utf-8").read() for c in corpus.single_file_cases()]
    out += srcs
    # the same files with Windows line endings, with a byte-order mark, and with tabs for indentation
    out += [s.replace("\n", "\r\n") for s in srcs[:: (6 if tier == "quick" else 1)]]
    out += ["\ufeff" + s for s in srcs[:: (12 if tier == "quick" else 2)]]
    out += [s.replace("    ", "\t") for s in srcs[:: (12 if tier == "quick" else 2)]]
    for _ in range(400 if tier == "quick" else 6000):
        s = rnd.choice(srcs)
        for _ in range(rnd.randint(1, 3)):
            if not s:
                break
            i = rnd.randrange(len(s))
            op = rnd.choice(["del", "dup", "ins", "cut", "swap"])
            if op == "del":
                s = s[:i] + s[i + rnd.randint(1, 4):]
            elif op == "dup":
                j = min(len(s), i + rnd.randint(1, 12))
                s = s[:j] + s[i:j] + s[j:]
            elif op == "ins":
                s = s[:i] + rnd.choice(ALPHABET) + s[i:]
            elif op == "cut":
                s = s[:i]
            else:
                j = rnd.randrange(len(s))
                a, b = min(i, j), max(i, j)
                s = s[:a] + s[b:b + 1] + s[a + 1:b] + s[a:a + 1] + s[b + 1:]
        out.append(s)
    # deep unclosed nesting in front of a token the parser does not skip (kept last: run() labels these by position)
    out += [t for _, _, t in unclosed_texts(tier)]
    return out


def run(tier, rep):
    build_harness()
    rnd = rng(12)
    r = run_tlc("TreeBuilder", "TreeBuilder.cfg", workers=8, xmx="8g", coverage=True, timeout=1800)
    if not tlc_ok(r, "TreeBuilder"):
        rep.violation(f"model:TreeBuilder:{r.violated}", {"trace": r.trace[-2:]})
    for a in ("Step", "Peek"):
        if r.coverage.get(a, 0) == 0:
            raise ToolError(f"vacuity: TreeBuilder action {a} never taken")
    ts = texts(tier, rnd)
    unclosed = unclosed_texts(tier)
    label = {len(ts) - len(unclosed) + k: ("unclosed:" + l, d_) for k, (l, d_, _) in enumerate(unclosed)}          # index in ts -> family label, depth
    assert all(ts[i] == unclosed[i - len(ts) + len(unclosed)][2] for i in label)
    reqs = [{"id": i, "mode": "cst", "bytes": list(t.encode("utf-8"))} for i, t in enumerate(ts)]
    answers = gv_robust("parse", reqs, shards=NCPU, mem_gb=2)   # the death of a harness process (allocation failure, stack overflow) is data: verdict "abort"
    recs = []
    crash = 0
    for i, (t, a) in enumerate(zip(ts, answers)):
        if a["verdict"] != "ok":
            crash += 1
            rep.violation(f"parse-{a['verdict']}:{a.get('at')}" + (":" + label[i][0] if i in label else ""), {"text": t[:300], "msg": a.get("msg")}, replay={"text": t})
            continue
        for d in a["diags"]:
            if d["s"] is None:
                d["s"], d["e"] = -1, -1
        a["diags"] = [{"s": d["s"], "e": d["e"]} for d in a["diags"]]
        a["tokens"] = [{"s": x["s"], "e": x["e"], "triv": x["triv"], "textlen": x["textlen"]} for x in a["tokens"]]
        a["events"] = [{"ev": x["ev"]} for x in a["events"]]
        a["leaves"] = [{"s": x["s"], "e": x["e"]} for x in a["leaves"]]
        recs.append(a)
    # ---- trace validation by TLC, sharded
    shards = NCPU
    chunks = [recs[i::shards] for i in range(shards)]
    d = workdir("c12-traces")
    import threading
    results = [None] * shards

    def go(i):
        path = os.path.join(d, f"t{i}.ndjson")
        write_lines(path, chunks[i])
        try:
            results[i] = run_tlc("TreeTrace", "TreeTrace.cfg", env={"TRACES": path}, workers=1, xmx="3g", timeout=3000, xss="256m", name=f"treetrace-{i}")
        except ToolError as e:
            results[i] = e
    th = [threading.Thread(target=go, args=(i,)) for i in range(shards) if chunks[i]]
    [t.start() for t in th]
    [t.join() for t in th]
    states = trans = 0
    nonconf = 0
    for i, rr in enumerate(results):
        if rr is None:
            continue
        if isinstance(rr, Exception):
            raise rr
        if rr.rc != 0:
            raise ToolError("TreeTrace failed: " + (rr.error or rr.stdout[-1500:]))
        if rr.generated != len(chunks[i]):
            raise ToolError(f"TreeTrace consumed {rr.generated} of {len(chunks[i])} records")
        states += rr.distinct
        trans += rr.generated
        for nc in rr.json_prints("NONCONFORM"):
            nonconf += 1
            bad = sorted(k for k, v in nc["verdict"].items() if not v)
            text = ts[nc["id"]]
            fam = label.get(nc["id"])
            if fam:        # generated family: the identity names position and construct; depth and stop token are in the detail
                rep.violation("nonconform:" + "+".join(bad) + ":" + fam[0], {"depth": fam[1][0], "stop": fam[1][1], "text": text[:400], "verdict": nc["verdict"]}, replay={"text": text})
                continue
            rep.violation("nonconform:" + "+".join(bad), {"text": text[:400], "verdict": nc["verdict"]}, replay={"text": text})
    with_err = sum(1 for a in recs if a["diags"])
    multibyte = sum(1 for a in recs if not all(a["char_boundary"]))
    for t in ts[40:43]:
        rep.sample({"text": t})
    rep.coverage.update({"states": r.distinct + states, "transitions": r.generated + trans, "traces_validated_against_impl": len(recs),
                         "texts": len(ts), "texts_with_diagnostics": with_err, "texts_with_multibyte_chars": multibyte,
                         "action_coverage": r.coverage, "alphabet": len(ALPHABET), "nonconforming": nonconf,
                         "unclosed_nesting_texts": len(unclosed), "unclosed_nesting_shapes": len({l for l, _, _ in unclosed}),
                         "unclosed_nesting_depths": [8, 160]})
    rep.assumptions += ["exhaustive over the alphabet up to 2 (quick) / 3 (thorough) symbols, sampled beyond; corpus mutations are seeded",
                        "the builder model is checked for <= 4 tokens and <= 5 events"]
    if with_err < 100 or multibyte < 100:
        raise ToolError("vacuity: too few erroneous or multi-byte inputs")
    # ---- the lexer against Lexer.tla: token kinds and byte ranges of every text of the bound and of whole files
    import lexercheck
    lfiles = [(c["name"], open(c["src"]).read()) for c in corpus.single_file_cases()]
    if tier != "quick":         # every .gom file of the repository's test trees (typer / parser error cases, packages)
        import glob as _glob
        for f_ in sorted(_glob.glob(os.path.join(REPO, "crates", "**", "*.gom"), recursive=True)):
            try:
                lfiles.append((os.path.relpath(f_, REPO), open(f_, encoding="utf-8").read()))
            except (UnicodeDecodeError, OSError):
                pass
    lst = lexercheck.run(tier, rep, lfiles)
    rep.coverage["lexer_specification"] = lst
    rep.coverage["states"] += lst["states"]
    rep.coverage["traces_validated_against_impl"] += lst["texts"]
