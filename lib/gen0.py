#!/usr/bin/env python3
"""Scratch prototype: seeded type-directed generator of small goml programs (GAST JSON + rendered text)."""
import json, random, sys

INT={"t":"int32"}; BOOL={"t":"bool"}; STR={"t":"string"}; UNIT={"t":"unit"}
TUP={"t":"tuple","ts":[INT,BOOL]}
S={"t":"adt","n":"S"}; E={"t":"adt","n":"E"}
REF={"t":"ref","e":INT}
FN={"t":"fn","ps":[INT],"r":INT}

STRUCTS={"S":[("a",INT),("b",BOOL)]}
ENUMS={"E":[("A",[]),("B",[INT]),("C",[INT,BOOL])]}

def tyeq(a,b): return json.dumps(a,sort_keys=True)==json.dumps(b,sort_keys=True)
def tystr(t):
    k=t["t"]
    if k in("int32","bool","string","unit"): return k
    if k=="tuple": return "("+", ".join(tystr(x) for x in t["ts"])+")"
    if k=="adt": return t["n"]
    if k=="ref": return "Ref["+tystr(t["e"])+"]"
    if k=="fn": return "("+", ".join(tystr(x) for x in t["ps"])+") -> "+tystr(t["r"])
    raise ValueError(k)

class Gen:
    def __init__(s,seed,feat):
        s.r=random.Random(seed); s.n=0; s.tick=0; s.feat=feat
    def fresh(s,h="v"):
        s.n+=1; return f"{h}{s.n}"
    def vars_of(s,env,ty): return [x for x,t in env if tyeq(t,ty)]
    def lit(s,ty):
        k=ty["t"]
        if k=="int32": return {"k":"int","v":s.r.randint(0,9)}
        if k=="bool": return {"k":"bool","v":s.r.random()<0.5}
        if k=="string": return {"k":"str","v":[ord(c) for c in s.r.choice(["a","bc","x y",""])]}
        if k=="unit": return {"k":"unit"}
        if k=="tuple": return {"k":"tuple","es":[s.lit(t) for t in ty["ts"]]}
        if k=="adt" and ty["n"]=="S": return {"k":"struct","n":"S","fs":[{"f":f,"e":s.lit(t)} for f,t in STRUCTS["S"]]}
        if k=="adt" and ty["n"]=="E":
            v,ts=s.r.choice(ENUMS["E"]); return {"k":"ctor","enum":"E","variant":v,"as":[s.lit(t) for t in ts]}
        if k=="fn": return {"k":"fnref","n":"inc"}
        raise ValueError(k)
    def expr(s,ty,env,d):
        r=s.r; k=ty["t"]
        vs=s.vars_of(env,ty)
        if d<=0 or r.random()<0.15:
            if vs and r.random()<0.6: return {"k":"var","x":r.choice(vs)}
            if k=="ref": return {"k":"var","x":r.choice(vs)} if vs else None
            return s.lit(ty)
        opts=[]
        if vs: opts.append("var")
        if k=="int32":
            opts+=["bin","bin","tick","if","call","proj","field","match","block"]
            if s.vars_of(env,REF): opts.append("refget")
            if "closure" in s.feat: opts.append("callv")
            if "hof" in s.feat: opts+=["apply1"]
        elif k=="bool": opts+=["cmp","cmp","logic","logic","not","tickb","if","field"]
        elif k=="string": opts+=["i2s","b2s","concat","if"]
        elif k=="unit":
            opts+=["println","println","block","if"]
            if s.vars_of(env,REF): opts.append("refset")
        elif k=="tuple": opts+=["tuple","if"]
        elif k=="adt": opts+=["mk","if"]
        elif k=="fn":
            opts+=["fnref"]
            if "closure" in s.feat: opts+=["lam","lam"]
            if "hof" in s.feat: opts+=["if"]
        elif k=="ref": return {"k":"var","x":r.choice(vs)} if vs else None
        c=r.choice(opts)
        if c=="var": return {"k":"var","x":r.choice(vs)}
        if c=="bin": return {"k":"bin","op":r.choice(["+","-","*"]),"l":s.expr(INT,env,d-1),"r":s.expr(INT,env,d-1)}
        if c=="tick": s.tick+=1; return {"k":"call","f":"tick","as":[{"k":"int","v":s.tick},s.expr(INT,env,d-1)]}
        if c=="tickb": s.tick+=1; return {"k":"call","f":"tickb","as":[{"k":"int","v":s.tick},s.expr(BOOL,env,d-1)]}
        if c=="if": return {"k":"if","c":s.expr(BOOL,env,d-1),"t":s.block(ty,env,d-1),"e":s.block(ty,env,d-1)}
        if c=="call": return {"k":"call","f":"add3","as":[s.expr(INT,env,d-1),s.expr(INT,env,d-1),s.expr(BOOL,env,d-1)]}
        if c=="proj": return {"k":"proj","e":s.expr(TUP,env,d-1),"i":0}
        if c=="field":
            return {"k":"field","e":s.expr(S,env,d-1),"f":"a" if k=="int32" else "b"}
        if c=="match":
            a=s.fresh("m"); b=s.fresh("m"); c2=s.fresh("m")
            return {"k":"match","e":s.expr(E,env,d-1),"arms":[
                {"p":{"k":"pctor","enum":"E","variant":"A","ps":[]},"b":s.expr(INT,env,d-1)},
                {"p":{"k":"pctor","enum":"E","variant":"B","ps":[{"k":"pvar","x":a}]},"b":s.expr(INT,env+[(a,INT)],d-1)},
                {"p":{"k":"pctor","enum":"E","variant":"C","ps":[{"k":"pvar","x":b},{"k":"pvar","x":c2}]},"b":s.expr(INT,env+[(b,INT),(c2,BOOL)],d-1)}]}
        if c=="block": return s.block(ty,env,d-1,force=True)
        if c=="refget": return {"k":"call","f":"ref_get","as":[{"k":"var","x":r.choice(s.vars_of(env,REF))}]}
        if c=="refset": return {"k":"call","f":"ref_set","as":[{"k":"var","x":r.choice(s.vars_of(env,REF))},s.expr(INT,env,d-1)]}
        if c=="apply1": return {"k":"call","f":"apply1","as":[s.expr(FN,env,d-1),s.expr(INT,env,d-1)]}
        if c=="callv": return {"k":"callv","f":s.expr(FN,env,d-1),"as":[s.expr(INT,env,d-1)]}
        if c=="cmp": return {"k":"bin","op":r.choice(["<",">","<=",">=","==","!="]),"l":s.expr(INT,env,d-1),"r":s.expr(INT,env,d-1)}
        if c=="logic": return {"k":"bin","op":r.choice(["&&","||"]),"l":s.expr(BOOL,env,d-1),"r":s.expr(BOOL,env,d-1)}
        if c=="not": return {"k":"un","op":"!","e":s.expr(BOOL,env,d-1)}
        if c=="i2s": return {"k":"call","f":"int32_to_string","as":[s.expr(INT,env,d-1)]}
        if c=="b2s": return {"k":"call","f":"bool_to_string","as":[s.expr(BOOL,env,d-1)]}
        if c=="concat": return {"k":"bin","op":"+","l":s.expr(STR,env,d-1),"r":s.expr(STR,env,d-1)}
        if c=="println": return {"k":"call","f":"string_println","as":[s.expr(STR,env,d-1)]}
        if c=="tuple": return {"k":"tuple","es":[s.expr(t,env,d-1) for t in ty["ts"]]}
        if c=="mk":
            if ty["n"]=="S": return {"k":"struct","n":"S","fs":[{"f":f,"e":s.expr(t,env,d-1)} for f,t in STRUCTS["S"]]}
            v,ts=r.choice(ENUMS["E"]); return {"k":"ctor","enum":"E","variant":v,"as":[s.expr(t,env,d-1) for t in ts]}
        if c=="fnref": return {"k":"fnref","n":r.choice(["inc","dbl"])}
        if c=="lam":
            x=s.fresh("p"); return {"k":"lam","ps":[{"x":x,"ty":INT}],"b":s.expr(INT,env+[(x,INT)],d-1)}
        raise ValueError(c)
    def block(s,ty,env,d,force=False):
        r=s.r; stmts=[]; env=list(env)
        n=r.randint(1,2) if force else r.randint(0,2)
        for _ in range(n):
            c=r.random()
            if c<0.45:
                t=r.choice([INT,INT,BOOL,STR,TUP,S,E]+([FN] if "closure" in s.feat else []))
                x=s.fresh(); e=s.expr(t,env,d-1); stmts.append({"k":"let","x":x,"ty":t,"e":e}); env.append((x,t))
            elif c<0.6:
                x=s.fresh("r"); stmts.append({"k":"let","x":x,"ty":REF,"e":{"k":"call","f":"ref","as":[s.expr(INT,env,d-1)]}}); env.append((x,REF))
            elif c<0.8:
                stmts.append({"k":"ignore","e":s.expr(r.choice([INT,BOOL,UNIT]),env,d-1)})
            else:
                a=s.fresh("a"); b=s.fresh("b")
                stmts.append({"k":"lettup","xs":[a,b],"e":s.expr(TUP,env,d-1)}); env+= [(a,INT),(b,BOOL)]
        return {"k":"block","stmts":stmts,"tail":s.expr(ty,env,d)}

def render_e(e,ind=1):
    k=e["k"]; I="    "*ind
    R=lambda x: render_e(x,ind)
    if k=="int": return str(e["v"])
    if k=="bool": return "true" if e["v"] else "false"
    if k=="str": return '"'+bytes(e["v"]).decode()+'"'
    if k=="unit": return "()"
    if k=="var": return e["x"]
    if k=="fnref": return e["n"]
    if k=="bin": return "("+R(e["l"])+" "+e["op"]+" "+R(e["r"])+")"
    if k=="un": return "("+e["op"]+R(e["e"])+")"
    if k=="call": return e["f"]+"("+", ".join(R(a) for a in e["as"])+")"
    if k=="callv":
        f=R(e["f"]); f=f if e["f"]["k"] in("var","fnref") else "("+f+")"
        return f+"("+", ".join(R(a) for a in e["as"])+")"
    if k=="if": return "if "+R(e["c"])+" "+render_blk(e["t"],ind)+" else "+render_blk(e["e"],ind)
    if k=="proj": return R(e["e"])+"."+str(e["i"])
    if k=="field": return R(e["e"])+"."+e["f"]
    if k=="tuple": return "("+", ".join(R(x) for x in e["es"])+")"
    if k=="struct": return e["n"]+" { "+", ".join(f["f"]+": "+R(f["e"]) for f in e["fs"])+" }"
    if k=="ctor": return e["variant"]+("("+", ".join(R(a) for a in e["as"])+")" if e["as"] else "")
    if k=="lam": return "|"+", ".join(p["x"]+": "+tystr(p["ty"]) for p in e["ps"])+"| "+R(e["b"])
    if k=="match":
        s="match "+R(e["e"])+" {\n"
        for a in e["arms"]: s+=I+"    "+render_p(a["p"])+" => "+render_e(a["b"],ind+1)+",\n"
        return s+I+"}"
    if k=="block": return render_in(e,ind)
    raise ValueError(k)
def render_p(p):
    k=p["k"]
    if k=="pvar": return p["x"]
    if k=="pwild": return "_"
    if k=="pctor": return p["variant"]+("("+", ".join(render_p(x) for x in p["ps"])+")" if p["ps"] else "")
    raise ValueError(k)
def needs_wrap(e): return e["k"] in ("block",)
def render_blk(b,ind):
    I="    "*(ind+1)
    if b["k"]!="block": b={"k":"block","stmts":[],"tail":b}
    s="{\n"
    for st in b["stmts"]:
        if st["k"]=="let": s+=I+"let "+st["x"]+": "+tystr(st["ty"])+" = "+render_in(st["e"],ind+1)+";\n"
        elif st["k"]=="ignore": s+=I+"let _ = "+render_in(st["e"],ind+1)+";\n"
        elif st["k"]=="lettup": s+=I+"let ("+", ".join(st["xs"])+") = "+render_in(st["e"],ind+1)+";\n"
    s+=I+render_in(b["tail"],ind+1)+"\n"+"    "*ind+"}"
    return s
def render_in(e,ind):
    # goml has no block expression atom: wrap blocks as `if true {..} else {..}`? keep simple: use a match-free trick
    if e["k"]=="block": return "if true "+render_blk(e,ind)+" else "+render_blk(e,ind)
    return render_e(e,ind)

PRELUDE='''struct S { a: int32, b: bool }
enum E { A, B(int32), C(int32, bool) }
fn tick(i: int32, v: int32) -> int32 { let _ = string_println("t" + int32_to_string(i)); v }
fn tickb(i: int32, v: bool) -> bool { let _ = string_println("t" + int32_to_string(i)); v }
fn inc(x: int32) -> int32 { x + 1 }
fn dbl(x: int32) -> int32 { x * 2 }
fn add3(x: int32, y: int32, z: bool) -> int32 { if z { x + y } else { x - y } }
fn apply1(f: (int32) -> int32, x: int32) -> int32 { f(x) }
'''
def fix_blocks(e):
    """blocks in expression position are rendered as `if true {b} else {b}`; make the GAST say the same so both sides agree"""
    if isinstance(e,dict):
        e={k:fix_blocks(v) for k,v in e.items()}
        return e
    if isinstance(e,list): return [fix_blocks(x) for x in e]
    return e

def program(seed,depth,feat):
    g=Gen(seed,feat)
    body=g.block(UNIT,[],depth,force=True)
    # main prints a final int so values are observable
    res=g.expr(INT,[],1)
    text=PRELUDE+"fn main() {\n    let _ = "+render_in(body,1)+";\n    let _ = string_println(int32_to_string("+render_e(res,1)+"));\n    ()\n}\n"
    gast={"k":"block","stmts":[{"k":"ignore","e":body},{"k":"ignore","e":{"k":"call","f":"string_println","as":[{"k":"call","f":"int32_to_string","as":[res]}]}}],"tail":{"k":"unit"}}
    return {"id":seed,"text":text,"main":gast}

if __name__=="__main__":
    n=int(sys.argv[1]); depth=int(sys.argv[2]); feat=set(sys.argv[3].split(",")) if len(sys.argv)>3 else set()
    base=int(sys.argv[4]) if len(sys.argv)>4 else 0
    for i in range(n):
        print(json.dumps(program(base+i,depth,feat)))
