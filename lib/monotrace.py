"""Trace validation of the real monomorphisation pass against spec/Mono.tla (through spec/MonoTrace.tla).

The compiler is built with --cfg goml_verif; crates/compiler/src/mono.rs then reports every return of ensure_instance, the
end of seeding, every pop_front / out.push of the worklist loop and every TypeMono::ensure_instance to the harness, which
returns the events with the answer of `gv compile` ("trace": ["mono"]).  This module turns the events of many programs into
one ndjson file (instance keys interned, lookahead sets of calls per body added), lets TLC consume it with the actions of
Mono.tla, and reports every program whose run is not a behaviour of the specification."""
import json, os, threading
from common import *


def events_of(answer):
    """events of one program -> list of trace records for MonoTrace.tla (None when the pass never started)"""
    evs = [e for e in answer.get("trace", []) if e.get("ev") in ("ensure", "seeded", "pop", "emit", "drained", "tensure")]
    if not evs:
        return None
    keys = {}

    def kid(s):
        return keys.setdefault(s, "k%d" % len(keys))
    names = {}

    def nid(s):
        # names are interned as well (injectively: equal ids <=> equal names); polymorphic recursion makes names of several kB
        return names.setdefault(s, "n%d" % len(names)) if s is not None else "n-"
    out = []
    # lookahead: the ensure events up to the next seeded/emit belong to the roots / the popped body
    for i, e in enumerate(evs):
        k = e["ev"]
        if k == "ensure":
            out.append({"ev": "ensure", "c": [e["fn"], kid(e["key"])], "spec": nid(e["spec"]), "outcome": e["outcome"], "work": e.get("work", 0)})
        elif k == "pop":
            out.append({"ev": "pop", "c": [e["fn"], kid(e["key"])], "spec": nid(e["spec"]), "work": e["work"], "P": []})
        elif k == "tensure":
            out.append({"ev": "tensure", "k": [e["ty"], kid("T" + e["key"])], "spec": nid("T:" + e["spec"]), "outcome": e["outcome"]})
        elif k == "seeded":
            out.append({"ev": "seeded", "work": e["work"]})
        elif k == "emit":
            out.append({"ev": "emit", "spec": nid(e["spec"]), "out": e["out"]})
        elif k == "drained":
            out.append({"ev": "drained", "out": e["out"], "refused": bool(e["refused"])})
    # a hit that repeats an earlier identical hit carries no information (TypeMono looks every occurrence of a type up)
    seen, slim = set(), []
    for r in out:
        if r["ev"] in ("ensure", "tensure") and r["outcome"] == "hit":
            key = (r["ev"], json.dumps(r.get("c") or r.get("k")), r["spec"])
            if key in seen:
                continue
            seen.add(key)
        slim.append(r)
    out = slim
    head = {"ev": "reset", "id": str(answer.get("id")), "P": []}
    owner = head
    for r in out:
        if r["ev"] == "pop":
            owner = r
        elif r["ev"] == "ensure":
            if r["c"] not in owner["P"]:
                owner["P"].append(r["c"])
    verdict = answer.get("verdict")
    res = {"ev": "result", "verdict": "ok" if verdict == "ok" else "rejected", "fns": [nid(n) for n in (answer.get("mono_fns") or [])],
           "toutcomes": sorted({r["outcome"] for r in out if r["ev"] == "tensure"})}
    return [head] + out + [res]


def run_trace(records, name, shards=None, timeout=1200):
    """records: list of per-program event lists; returns (rejects: list of dicts with id, stats)"""
    if not records:
        return [], {"events": 0, "programs": 0, "states": 0}
    shards = shards or min(NCPU, max(1, len(records) // 20))
    d = workdir(f"monotrace-{name}-{os.getpid()}")
    results = [None] * shards
    chunks = [records[i::shards] for i in range(shards)]

    def go(i):
        path = os.path.join(d, f"trace{i}.ndjson")
        write_lines(path, [e for rec in chunks[i] for e in rec])
        try:
            results[i] = run_tlc("MonoTrace", "MonoTrace.cfg", env={"MONOTRACE": path}, workers=1, xmx="3g", timeout=timeout,
                                 xss="512m", name=f"monotrace-{name}-s{i}")
        except ToolError as e:
            results[i] = e
    ths = [threading.Thread(target=go, args=(i,)) for i in range(shards)]
    [t.start() for t in ths]
    [t.join() for t in ths]
    rejects = []
    stats = {"events": 0, "programs": len(records), "states": 0}
    for i, r in enumerate(results):
        if isinstance(r, Exception):
            raise r
        flat = [e for rec in chunks[i] for e in rec]
        if r.violated:
            raise ToolError(f"MonoTrace shard {i}: invariant {r.violated} violated on a real run (this is a finding to look at by hand): " + "\n".join(r.trace[-2:])[:1500])
        if r.rc != 0:
            raise ToolError(f"TLC MonoTrace shard {i} failed rc={r.rc}: " + (r.error or r.stdout[-2000:]))
        done = r.json_prints("MONODONE")
        if not done or done[0]["events"] != len(flat):
            raise ToolError(f"MonoTrace shard {i}: the trace was not consumed to its end ({done})")
        stats["events"] += len(flat)
        stats["states"] += r.distinct
        for rej in r.json_prints("MONOREJECT"):
            at = rej["at"] - 1
            pid = None
            for j in range(at, -1, -1):
                if flat[j]["ev"] == "reset":
                    pid = flat[j]["id"]
                    break
            rejects.append({"id": pid, "event": rej["ev"], "state": {k: rej[k] for k in ("st", "work", "out")}})
    return rejects, stats


def collect(cases, extra=None):
    """compile the given cases ({id, path}) with the mono trace on; returns list of (case, answer)"""
    reqs = [dict({"id": c["id"], "path": c["path"], "trace": ["mono"]}, **(extra or {})) for c in cases]
    need_feature("hooks")
    answers = gv_robust("compile", reqs, extra=["--limit-ms", "60000"])
    return list(zip(cases, answers))


def validate(cases, rep, name, ident=lambda c: c.get("ident", c["id"])):
    """Validate the mono traces of all given programs; violations are reported under <ident>:mono-trace:<event kind>."""
    pairs = collect(cases)
    records, by_id = [], {}
    for c, a in pairs:
        rec = events_of(a)
        if rec is None:
            continue
        records.append(rec)
        by_id[str(a.get("id"))] = (c, a)
    rejects, stats = run_trace(records, name)
    seen = set()
    for rj in rejects:
        c, a = by_id.get(rj["id"], ({}, {}))
        if rj["id"] in seen:
            continue
        seen.add(rj["id"])
        rep.violation(f"{ident(c)}:mono-trace:{rj['event'].get('ev')}", {"rejected_event": rj["event"], "model_state": rj["state"], "path": c.get("path")},
                      replay={"path": c.get("path"), "ident": ident(c)})
    stats["with_generic_instances"] = sum(1 for r in records if any(e["ev"] == "ensure" and e["c"][1] != "k0" for e in r))
    stats["with_type_instances"] = sum(1 for r in records if any(e["ev"] == "tensure" and e["outcome"] == "new" for e in r))
    stats["refused"] = sum(1 for r in records if any(e["ev"] == "drained" and e["refused"] for e in r))
    return records, stats


def self_test(records):
    """Binding demonstration: corrupt one recorded field in three ways; every corruption must be rejected."""
    import copy
    base = next((r for r in records if sum(1 for e in r if e["ev"] == "pop") >= 3 and any(e["ev"] == "ensure" and e["outcome"] == "hit" for e in r)), None)
    if base is None:
        raise ToolError("mono trace self-test: no recorded run with three pops and a hit")
    muts = {}
    m = copy.deepcopy(base)          # 1. two pops swapped (not first-in first-out)
    pops = [i for i, e in enumerate(m) if e["ev"] == "pop"]
    m[pops[0]]["c"], m[pops[1]]["c"] = m[pops[1]]["c"], m[pops[0]]["c"]
    m[pops[0]]["spec"], m[pops[1]]["spec"] = m[pops[1]]["spec"], m[pops[0]]["spec"]
    muts["pops-swapped"] = m
    m = copy.deepcopy(base)          # 2. a hit reported as a new instance (the instance would be transformed twice)
    h = next(e for e in m if e["ev"] == "ensure" and e["outcome"] == "hit")
    h["outcome"] = "new"
    muts["hit-as-new"] = m
    m = copy.deepcopy(base)          # 3. two instances answered with one name
    news = [e for e in m if e["ev"] == "ensure" and e["outcome"] == "new"]
    news[1]["spec"] = news[0]["spec"]
    muts["shared-name"] = m
    m = copy.deepcopy(base)          # 4. an instance dropped from the output
    m[-1]["fns"] = m[-1]["fns"][1:]
    muts["missing-function"] = m
    for k, r in muts.items():
        r[0]["id"] = k
    rejects, _ = run_trace(list(muts.values()), "selftest", shards=1)
    got = {r["id"] for r in rejects}
    missing = sorted(set(muts) - got)
    if missing:
        raise ToolError(f"mono trace self-test: corrupted traces accepted: {missing}")
    return sorted(muts)
