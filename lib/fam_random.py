"""Seeded type-directed random GAST programs (safety net behind the enumerated families)."""
import random
from gast import *

S = TAdt("S")
E = TAdt("E")
TUP = TTuple(INT32, BOOL)
REFI = TRef(INT32)
FN1 = TFn([INT32], INT32)
VECI = TVec(INT32)
ARR3 = TArray(3, INT32)
M_I = TAdt("M", INT32)


def tyeq(a, b):
    return tykey(a) == tykey(b) and a.get("t") == b.get("t") and a == b


class Gen:
    def __init__(self, seed, feats):
        self.r = random.Random(seed)
        self.n = 0
        self.tick = 0
        self.feats = feats

    def fresh(self, h="v"):
        self.n += 1
        return f"{h}{self.n}"

    def vars_of(self, env, ty):
        return [x for x, t in env if t == ty]

    def lit(self, ty):
        r = self.r
        k = ty["t"]
        if k == "int32":
            return Int(r.choice([0, 1, 2, 3, 5, 7, 9, -1, -4, 100, 2147483647, -2147483647]) if r.random() < 0.3 else r.randint(0, 9))
        if k == "int8":
            return Int(r.choice([0, 1, -1, 127, -127, 5, 100]), "int8", suffix=True)
        if k == "int64":
            return Int(r.choice([0, 1, -1, 9223372036854775807, 4294967296, 7]), "int64", suffix=True)
        if k == "uint8":
            return Int(r.choice([0, 1, 255, 200, 7]), "uint8", suffix=True)
        if k == "bool":
            return Bool(r.random() < 0.5)
        if k == "string":
            return Str(r.choice(["a", "bc", "x y", "", "q\"r", "é", "b\\s", "n\nl", "t\tab"]))
        if k == "unit":
            return Unit
        if k == "tuple":
            return Tuple(*[self.lit(t) for t in ty["ts"]])
        if k == "adt" and ty["n"] == "S":
            return Struct(S, [("a", self.lit(INT32)), ("b", self.lit(BOOL))])
        if k == "adt" and ty["n"] == "E":
            v = r.choice(["A", "B", "C"])
            return Ctor(E, v, *[self.lit(t) for t in {"A": [], "B": [INT32], "C": [INT32, BOOL]}[v]])
        if k == "adt" and ty["n"] == "M":
            return Ctor(M_I, "Some", self.lit(INT32)) if r.random() < 0.6 else Ctor(M_I, "None")
        if k == "fn":
            return FnRef(r.choice(["inc", "dbl"]))
        if k == "array":
            return Array(*[self.lit(ty["e"]) for _ in range(ty["n"])])
        if k == "vec":
            e = Call("vec_new", targs=[INT32])
            for _ in range(r.randint(1, 3)):
                e = Call("vec_push", e, self.lit(INT32))
            return e
        raise ValueError(k)

    def expr(self, ty, env, d):
        r = self.r
        k = ty["t"]
        vs = self.vars_of(env, ty)
        if d <= 0 or r.random() < 0.12:
            if vs and r.random() < 0.6:
                return Var(r.choice(vs))
            if k == "ref":
                return Var(r.choice(vs)) if vs else Call("ref", self.lit(INT32))
            return self.lit(ty)
        f = self.feats
        opts = []
        if vs:
            opts.append("var")
        if k == "int32":
            opts += ["bin", "bin", "tick", "if", "call3", "proj", "field", "match", "block", "neg"]
            if self.vars_of(env, REFI):
                opts.append("refget")
            if "closure" in f:
                opts += ["callv"]
            if "hof" in f:
                opts += ["apply1"]
            if "vec" in f:
                opts += ["veclen", "arrget"]
            if "generic" in f:
                opts += ["gid", "gmatch", "tshow"]
            if "widths" in f:
                opts += ["narrow"]
        elif k == "bool":
            opts += ["cmp", "cmp", "logic", "logic", "not", "tickb", "if", "field", "streq"]
        elif k == "string":
            opts += ["i2s", "b2s", "concat", "if", "ticks"]
            if "generic" in f:
                opts += ["tdesc"]
        elif k == "unit":
            opts += ["println", "println", "block", "if"]
            if self.vars_of(env, REFI):
                opts.append("refset")
            if "while" in f and self.vars_of(env, REFI):
                opts.append("while")
        elif k == "tuple":
            opts += ["tuple", "if"]
        elif k == "adt":
            opts += ["mk", "mk", "if"]
            if ty["n"] == "E":
                opts.append("match")
        elif k == "fn":
            opts += ["fnref"]
            if "closure" in f:
                opts += ["lam", "lam", "lamcap"]
            if "hof" in f:
                opts += ["if"]
        elif k == "ref":
            return Var(r.choice(vs)) if vs else Call("ref", self.expr(INT32, env, d - 1))
        elif k in ("vec", "array"):
            return Var(r.choice(vs)) if vs and r.random() < 0.5 else self.lit(ty)
        elif k in ("int8", "int64", "uint8"):
            opts += ["lit", "wbin"]
        c = r.choice(opts)
        X = lambda t: self.expr(t, env, d - 1)
        if c == "var":
            return Var(r.choice(vs))
        if c == "lit":
            return self.lit(ty)
        if c == "bin":
            op = r.choice(["+", "-", "*", "+", "-", "/"])
            # failing division is enumerated in the C09/C10 families (an unused failing division is dropped by DCE: known
            # finding); random programs only divide by non-zero literals so that any disagreement here is new
            rhs = Int(r.choice([1, 2, 3, 7, -1, -2])) if op == "/" else X(INT32)
            lhs = X(INT32)
            if lhs["k"] == "int" and rhs["k"] == "int":
                lhs = Call("inc", lhs)   # literal op literal is emitted as a Go constant expression (overflow = Go compile error): enumerated in C10
            return Bin(op, lhs, rhs)
        if c == "wbin":
            w = self.fresh("n")
            return Block([Let(w, X(ty), ty=ty)], Bin(r.choice(["+", "-", "*"]), Var(w), X(ty)))
        if c == "neg":
            x = X(INT32)
            return Un("-", Call("inc", x) if x["k"] == "int" else x)
        if c == "tick":
            self.tick += 1
            return Call("tick", Int(self.tick), X(INT32))
        if c == "tickb":
            self.tick += 1
            return Call("tickb", Int(self.tick), X(BOOL))
        if c == "ticks":
            self.tick += 1
            return Call("ticks", Int(self.tick), X(STRING))
        if c == "if":
            return If(X(BOOL), self.block(ty, env, d - 1), self.block(ty, env, d - 1))
        if c == "call3":
            return Call("add3", X(INT32), X(INT32), X(BOOL))
        if c == "proj":
            tv_ = self.vars_of(env, TUP)
            if tv_:
                return Proj(Var(r.choice(tv_)), 0)
            t = self.fresh("t")
            return Block([Let(t, X(TUP), ty=TUP)], Proj(Var(t), 0))
        if c == "field":
            return Field(X(S), "a" if k == "int32" else "b")
        if c == "match":
            a, b, c2 = self.fresh("m"), self.fresh("m"), self.fresh("m")
            scrut = X(E)
            pre = []
            under = getattr(self, "under", [])
            if scrut["k"] == "var" and scrut["x"] in under:
                # matching a variable again inside one of its own arms is emitted as a type switch on the narrowed variable
                # (invalid Go: known finding, enumerated as c06:rematch-same-variable); random programs match a copy instead
                w = self.fresh("s")
                pre = [Let(w, scrut, ty=E)]
                scrut = Var(w)
            self.under = under + ([scrut["x"]] if scrut["k"] == "var" else [])
            arms = [(PCtor("A"), X(ty)),
                    (PCtor("B", PVar(a)), self.expr(ty, env + [(a, INT32)], d - 1)),
                    (PCtor("C", PVar(b), PVar(c2)), self.expr(ty, env + [(b, INT32), (c2, BOOL)], d - 1))]
            self.under = under
            m = Match(scrut, arms)
            return Block(pre, m) if pre else m
        if c == "block":
            return self.block(ty, env, d - 1, force=True)
        if c == "refget":
            return Call("ref_get", Var(r.choice(self.vars_of(env, REFI))))
        if c == "refset":
            return Call("ref_set", Var(r.choice(self.vars_of(env, REFI))), X(INT32))
        if c == "while":
            rv = r.choice(self.vars_of(env, REFI))
            cnt = self.fresh("w")
            # bounded loop: counter ref declared just before by the caller via block
            return Block([Let(cnt, Call("ref", Int(0))),
                          Do(While(Bin("<", Call("ref_get", Var(cnt)), Int(r.randint(1, 3))),
                                   Block([Do(Call("ref_set", Var(cnt), Bin("+", Call("ref_get", Var(cnt)), Int(1)))),
                                          Do(Call("ref_set", Var(rv), self.expr(INT32, env, 1)))], Unit)))], Unit)
        if c == "apply1":
            return Call("apply1", X(FN1), X(INT32))
        if c == "callv":
            fe = X(FN1)
            if fe["k"] in ("var", "fnref"):
                return CallV(fe, X(INT32))
            fv = self.fresh("f")
            return Block([Let(fv, fe, ty=FN1)], CallV(Var(fv), self.expr(INT32, env, d - 1)))
        if c == "veclen":
            return Call("vec_len", X(VECI))
        if c == "arrget":
            return Call("array_get", X(ARR3), Int(r.randint(0, 2)))
        if c == "gid":
            return Call("gid", X(INT32), targs=[INT32])
        if c == "gmatch":
            return Call("unwrap_or", X(M_I), X(INT32), targs=[INT32])
        if c == "tshow":
            return Call("string_len", Call("gshow", X(S), targs=[S]))
        if c == "tdesc":
            return r.choice([TCall("Show", "show", X(S)), TCall("Show", "show", X(INT32)), Call("gshow", X(INT32), targs=[INT32])])
        if c == "narrow":
            t2 = r.choice([INT8, UINT8, INT64])
            w = self.fresh("n")    # operands of a narrow operator are never both literals (constant folding is a separate, enumerated C10 case)
            return Block([Let(w, self.lit(t2), ty=t2)], Call("string_len", Call(t2["t"] + "_to_string", Bin(r.choice(["+", "*", "-"]), Var(w), self.lit(t2)))))
        if c == "neg" and False:
            pass
        if c == "cmp":
            return Bin(r.choice(["<", ">", "<=", ">=", "==", "!="]), X(INT32), X(INT32))
        if c == "streq":
            return Bin(r.choice(["==", "!="]), X(STRING), X(STRING))
        if c == "logic":
            return Bin(r.choice(["&&", "||"]), X(BOOL), X(BOOL))
        if c == "not":
            return Un("!", X(BOOL))
        if c == "i2s":
            return Call("int32_to_string", X(INT32))
        if c == "b2s":
            return Call("bool_to_string", X(BOOL))
        if c == "concat":
            return Bin("+", X(STRING), X(STRING))
        if c == "println":
            return Call("string_println", X(STRING))
        if c == "tuple":
            return Tuple(*[X(t) for t in ty["ts"]])
        if c == "mk":
            if ty["n"] == "S":
                fs = [("a", X(INT32)), ("b", X(BOOL))]
                return Struct(S, fs)
            if ty["n"] == "M":
                return Ctor(M_I, "Some", X(INT32)) if r.random() < 0.7 else Ctor(M_I, "None")
            v = r.choice(["A", "B", "C"])
            return Ctor(E, v, *[X(t) for t in {"A": [], "B": [INT32], "C": [INT32, BOOL]}[v]])
        if c == "fnref":
            return FnRef(r.choice(["inc", "dbl"]))
        if c == "lam":
            x = self.fresh("p")
            return Lam([(x, INT32)], self.expr(INT32, [(x, INT32)] + [], d - 1) if r.random() < 0.3 else self.expr(INT32, env + [(x, INT32)], d - 1))
        if c == "lamcap":
            x = self.fresh("p")
            return Lam([(x, INT32)], Bin("+", Var(x), self.expr(INT32, env + [(x, INT32)], d - 1)))
        raise ValueError(c)

    def block(self, ty, env, d, force=False):
        r = self.r
        stmts = []
        env = list(env)
        n = r.randint(1, 2) if force else r.randint(0, 2)
        for _ in range(n):
            c = r.random()
            if c < 0.45:
                pool = [INT32, INT32, BOOL, STRING, TUP, S, E]
                if "closure" in self.feats:
                    pool.append(FN1)
                if "vec" in self.feats:
                    pool += [VECI, ARR3]
                if "generic" in self.feats:
                    pool.append(M_I)
                t = r.choice(pool)
                x = self.fresh()
                stmts.append(Let(x, self.expr(t, env, d - 1), ty=t))
                env.append((x, t))
            elif c < 0.6:
                x = self.fresh("r")
                stmts.append(Let(x, Call("ref", self.expr(INT32, env, d - 1))))
                env.append((x, REFI))
            elif c < 0.8:
                stmts.append(Do(self.expr(r.choice([INT32, BOOL, UNIT]), env, d - 1)))
            else:
                a, b = self.fresh("a"), self.fresh("b")
                stmts.append(Let(PTuple(PVar(a), PVar(b)), self.expr(TUP, env, d - 1)))
                env += [(a, INT32), (b, BOOL)]
        return Block(stmts, self.expr(ty, env, d))


def prelude(p):
    p.struct("S", [("a", INT32), ("b", BOOL)])
    p.enum("E", [("A", []), ("B", [INT32]), ("C", [INT32, BOOL])])
    p.enum("M", [("Some", [TParam("T")]), ("None", [])], gens=["T"])
    p.trait("Show", [("show", [], STRING)])
    p.impl("Show", S, [("show", [("self", S)], STRING, Bin("+", Str("S:"), Call("int32_to_string", Field(Var("self"), "a"))))])
    p.impl("Show", INT32, [("show", [("self", INT32)], STRING, Bin("+", Str("i:"), Call("int32_to_string", Var("self"))))])
    pr = lambda e: Do(Call("string_println", e))
    p.fn("tick", [("i", INT32), ("v", INT32)], INT32, Block([pr(Bin("+", Str("t"), show_int(Var("i"))))], Var("v")))
    p.fn("tickb", [("i", INT32), ("v", BOOL)], BOOL, Block([pr(Bin("+", Str("t"), show_int(Var("i"))))], Var("v")))
    p.fn("ticks", [("i", INT32), ("v", STRING)], STRING, Block([pr(Bin("+", Str("t"), show_int(Var("i"))))], Var("v")))
    p.fn("inc", [("x", INT32)], INT32, Bin("+", Var("x"), Int(1)))
    p.fn("dbl", [("x", INT32)], INT32, Bin("*", Var("x"), Int(2)))
    p.fn("add3", [("x", INT32), ("y", INT32), ("z", BOOL)], INT32, If(Var("z"), Bin("+", Var("x"), Var("y")), Bin("-", Var("x"), Var("y"))))
    p.fn("apply1", [("f", FN1), ("x", INT32)], INT32, CallV(Var("f"), Var("x")))
    p.fn("gid", [("x", TParam("T"))], TParam("T"), Var("x"), gens=["T"])
    p.fn("unwrap_or", [("m", TAdt("M", TParam("T"))), ("d", TParam("T"))], TParam("T"),
         Match(Var("m"), [(PCtor("Some", PVar("v")), Var("v")), (PCtor("None"), Var("d"))]), gens=["T"])
    p.fn("gshow", [("x", TParam("T"))], STRING, TCall("Show", "show", Var("x")), gens=[("T", ["Show"])])


def program(seed, depth, feats, name=None):
    g = Gen(seed, feats)
    p = Program(name or f"rnd_{seed}")
    prelude(p)
    body = g.block(UNIT, [], depth, force=True)
    res = g.expr(INT32, [], 2)
    p.fn("main", [], UNIT, Block([Do(body), Do(Call("string_println", Call("int32_to_string", res)))], Unit))
    return p


FEATURE_SETS = [set(), {"closure"}, {"vec"}, {"generic"}, {"while"}, {"widths"}, {"closure", "vec", "generic", "while", "widths"}]


def programs(n, base_seed, depth=3, with_hof=False):
    out = []
    for i in range(n):
        feats = set(FEATURE_SETS[i % len(FEATURE_SETS)])
        if with_hof and i % 5 == 0:
            feats.add("hof")
        seed = base_seed * 100003 + i
        fam = "random:" + ("+".join(sorted(feats)) or "core")
        out.append({"prog": program(seed, depth, feats, name=f"rnd_{seed}"), "family": fam, "ident": f"random:{seed}:{'+'.join(sorted(feats)) or 'core'}"})
    return out
