"""C07 — generic code behaves identically at every instantiation and is fully specialised.

spec/Mono.tla models the instantiation worklist of mono.rs (instances / queued / work / out) over abstract call graphs
whose edges carry type-argument transformers; TLC checks that every reachable instance is emitted exactly once, that the
worklist terminates exactly when the instantiation closure is finite, and that an injective naming scheme keeps instances
apart.  The binding is behavioural: generic templates (identity, swap, containers, return-type-only parameters, nested
instances, recursive generic data, function-typed parameters, trait-bounded functions calling each other) are
instantiated at pairs of concrete types; GomlSem.tla (which passes types at run time) gives the meaning, the real
monomorphised Go is executed by GoSem.tla and checked by GoStatic.tla (duplicate or missing instances are Go errors)."""
from common import *
import famcheck, fam_c07

LEVEL = "model_checking"


def run(tier, rep):
    build_harness()
    states = trans = 0
    for cfg in (["Mono_small.cfg"] if tier == "quick" else ["Mono_small.cfg", "Mono_deep.cfg", "Mono_big.cfg"]):
        r = run_tlc("MCMono", cfg, workers=12, xmx="16g", coverage=True, timeout=3000)
        if not tlc_ok(r, cfg):
            rep.violation(f"model:{cfg}:{r.violated}", {"trace": r.trace[-4:]})
        for a in ("Seed", "PopTo", "Ensure", "Emit", "Finish"):
            if r.coverage.get(a, 0) == 0:
                raise ToolError(f"vacuity: Mono action {a} never taken")
        states += r.distinct
        trans += r.generated
    rn = run_tlc("MCMono", "Mono_nodedup.cfg", workers=4, xmx="4g", timeout=900)
    if rn.violated is None:
        raise ToolError("model self-test: Mono without the `queued` test did not violate Once")
    # ---- polymorphic recursion: Mono.tla's Diverged / Refuse bound to the code -- an infinite instance closure is refused in
    # bounded time (never a hang, a crash or an acceptance), a finite one is accepted
    pr = fam_c07.polyrec_programs()
    pd = workdir("c07-polyrec")
    pres = gv_robust("compile", [{"id": n, "text": t, "dir": pd, "limit_s": 60} for n, t, inf in pr], extra=["--limit-ms", "60000"])
    for (n, t, inf), a in zip(pr, pres):
        v = a.get("verdict")
        if v in ("panic", "timeout", "abort"):
            rep.violation(f"polymorphic-recursion:{v}:{n}", {"source": t, "at": a.get("at"), "msg": a.get("msg")}, replay={"text": t})
        elif inf and v == "ok":
            rep.violation(f"polymorphic-recursion:accepted-infinite-closure:{n}", {"source": t}, replay={"text": t})
        elif not inf and v != "ok":
            rep.violation(f"polymorphic-recursion:rejected-finite-closure:{n}", {"source": t, "diags": [d["msg"] for d in a.get("diags", [])][:3]}, replay={"text": t})
    rep.coverage["polymorphic_recursion_programs"] = len(pr)
    progs = fam_c07.programs(tier)
    cases, counts = famcheck.run_families("C07", rep, progs, "c07", goinvalid_is_violation=True, crash_is_violation=True)
    # ---- trace validation of the real worklist against Mono.tla's actions (hooks in mono.rs, MonoTrace.tla)
    import monotrace, corpus, engine
    tcases = [{"id": c["id"], "path": c["path"], "ident": c["ident"]} for c in cases]
    tcases += [{"id": "corpus:" + c["name"], "path": c["src"], "ident": "corpus:" + c["name"]} for c in corpus.single_file_cases() + corpus.package_cases()]
    prd = workdir("c07-polyrec-files")
    tcases += [{"id": "polyrec:" + n, "path": engine.write_case(prd, n, t), "ident": "polymorphic-recursion:" + n} for n, t, inf in pr]
    recs, mst = monotrace.validate(tcases, rep, "c07")
    mst["self_test_corruptions_rejected"] = monotrace.self_test(recs)
    rep.coverage["mono_trace"] = mst
    if mst["with_generic_instances"] < 30 or mst["refused"] < 5 or mst["with_type_instances"] < 20:
        raise ToolError(f"vacuity: mono traces too thin: {mst}")
    rep.coverage["states"] += states + mst["states"]
    rep.coverage["transitions"] += trans
    rep.coverage["traces_validated_against_impl"] = counts.get("agree", 0) + counts.get("differ", 0) + mst["programs"]
    rep.assumptions += famcheck.STD_ASSUMPTIONS
    if counts.get("agree", 0) < 40:
        raise ToolError("vacuity: fewer than 40 generic programs compared")
