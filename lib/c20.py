"""C20 — editor queries are crash-free and agree with the compiler.

spec/QueryTrace.tla is the contract (a query answers for every text and position; hover on a variable use or binder of a
compiling program returns exactly the type the compile path assigned; every offered completion exists and type-checks)
and validates the recorded answers of the real query functions.  spec/Editor.tla generates the editing situations
(how much of a program has been typed x what is unfinished at the end x where the cursor is).

  * hover sweep: for complete programs (a declaration-table program with multi-byte text, generated family programs,
    corpus programs) hover / dot / `::` are asked at every byte position, one column past every line end, and positions
    outside the text; the oracle is the typed AST of the compile path (pipeline::compile): for each variable use, binder,
    closure parameter and field read the identifier's positions must hover to exactly that type.
  * keystroke states: every byte prefix of a text holding every lexical form (multi-line string lines, escapes, suffixed
    numbers, comments, multi-byte characters), of the table program and of corpus programs -- where a token is half typed.
  * editing states: prefixes of the programs at token boundaries with something unfinished appended (`.`, `::`, partial
    identifier, open paren / brace / string, multi-byte text, backslashes) and the cursor at the end, before the unfinished
    part, at the start, in the middle, past the line end, past the text end, inside a multi-byte character.
  * completion sites: a statement `let zz = <receiver>.` / `let zz = Path::` (with and without partial identifier and
    closing semicolon) for receivers of every shape (variable, field chain, tuple element, call result, method call result,
    Ref); offered names must be members according to the table the program was written from, and the statement completed
    with each offered name must be accepted by the type checker."""
import json, os, random
from collections import Counter
from common import *
import corpus, families, fam_c20, tv

LEVEL = "model_checking"

PENDING_TEXT = {"nothing": "", "dot": " pt.", "colon-colon": " Col::", "partial-identifier": " st", "dot-partial": " pt.n", "open-paren": " f(",
                "open-brace": " {", "open-string": ' "abc', "multi-byte": ' "é世', "backslashes": " \\\\ab"}


def line_col(b, off):
    """byte offset -> (line, byte column)"""
    line = b.count(b"\n", 0, off)
    start = b.rfind(b"\n", 0, off) + 1
    return line, off - start


def ident_len(b):
    n = 0
    while n < len(b) and (b[n:n + 1].isalnum() or b[n:n + 1] == b"_"):
        n += 1
    return n


def outcome_of(v):
    if isinstance(v, dict) and "panic" in v:
        return "panic", v["panic"]
    return None, None


def run(tier, rep):
    build_harness()
    sd = seed()
    rnd = random.Random(sd * 31 + 20)
    quick = tier == "quick"
    memdir = workdir("c20-mem")
    records = []
    info = {}

    def rec(rid, kind, outcome, got="", oracle="", offered=(), exists=("*",), rejected=(), about=None):
        records.append({"id": rid, "kind": kind, "outcome": outcome, "got": got, "oracle": oracle, "offered": list(offered), "exists": list(exists),
                        "rejected": list(rejected)})
        if about is not None:
            info[rid] = about

    def add_answers(rid0, text, res, about, oracle_at=None):
        """res: one entry of gv query's results"""
        for kind in ("hover", "dot", "colon"):
            if kind not in res:
                continue
            v = res[kind]
            rid = f"{rid0}@{res['l']}:{res['c']}:{kind}"
            pan, at = outcome_of(v)
            if pan:
                rec(rid, kind, "panic", about=dict(about, panic_at=at, msg=v.get("msg"), text=text))
            elif kind == "hover":
                orc = (oracle_at or {}).get((res["l"], res["c"]), "")
                if "ok" in v:
                    rec(rid, kind, "value", got=v["ok"], oracle=orc, about=dict(about, text=text) if orc else None)
                else:
                    rec(rid, kind, "none", oracle=orc, about=dict(about, text=text, err=v.get("err")) if orc else None)
            else:
                if v is None:
                    rec(rid, kind, "none")
                else:
                    rec(rid, kind, "value", offered=[i["n"] for i in v])

    # ---------------- bases
    bases = [("table", fam_c20.complete_program())]
    fam = families.all_families("quick", sd)
    wanted = ("c19:", "c03:", "c17:", "c08:", "c07:", "c06", "c18:", "random")
    per = Counter()
    for m in fam:
        key = next((w for w in wanted if m["ident"].startswith(w) or m["family"].startswith(w)), None)
        if key is None or m.get("extra_files") or m.get("expect") == "reject":
            continue
        if per[key] >= (2 if quick else 12):
            continue
        per[key] += 1
        bases.append((m["ident"], m["prog"].render()))
    cs = corpus.single_file_cases()
    rnd.shuffle(cs)
    for c in cs[: (6 if quick else 74)]:
        bases.append(("corpus:" + c["name"], open(c["src"], encoding="utf-8").read()))

    # ---------------- hover sweep with the compile path's oracle
    # phase 1: the oracle (typed AST of the compile path); phase 2: the positions -- every byte offset of texts up to 1500 bytes,
    # for longer ones every identifier the oracle knows plus an even sample of the rest (a sweep of a 20 kB program would take hours)
    o1 = gv_robust("query", [{"id": k, "text": t, "dir": memdir, "positions": [], "oracle": True, "limit_s": 300} for k, (n, t) in enumerate(bases)], shards=min(16, len(bases)))
    reqs = []
    for k, ((n, t), r) in enumerate(zip(bases, o1)):
        b = t.encode()
        if len(b) <= 1500:
            reqs.append({"id": k, "text": t, "dir": memdir, "all": True, "limit_s": 600})
            continue
        offs = set(range(0, len(b) + 1, max(1, len(b) // 700)))
        for o in (r.get("oracle") or []):
            offs.update(range(o["s"], min(o["e"], o["s"] + 24)))
        offs = sorted(offs)[:2500]
        pos = [list(line_col(b, off)) for off in offs]
        last = line_col(b, len(b))
        pos += [[last[0], last[1] + 1], [last[0] + 1, 0], [last[0] + 7, 3], [4294967295, 4294967295], [0, 4294967295]]
        reqs.append({"id": k, "text": t, "dir": memdir, "positions": pos, "limit_s": 900})
    res = gv_robust("query", reqs, shards=min(16, len(reqs)))
    for r, r1 in zip(res, o1):
        if "oracle" in r1 and not r.get("fatal"):
            r["oracle"] = r1.get("oracle")
    oracle_points = 0
    compiled_bases = 0
    for (name, text), r in zip(bases, res):
        if r.get("fatal") or r.get("verdict") == "abort":
            rec(f"sweep:{name}", "hover", "timeout" if r.get("fatal") == "timeout" else "panic", about={"base": name, "panic_at": r.get("at"), "msg": r.get("msg"), "text": text})
            continue
        b = text.encode()
        oracle_at = {}
        if r["oracle"] is not None:
            compiled_bases += 1
            for o in r["oracle"]:
                sl = b[o["s"]:o["e"]]
                nm = o["name"].split("/")[0].encode()
                if o["what"] == "field":
                    st = sl.rstrip()
                    if not st.endswith(nm) or len(st) == len(nm):
                        continue
                    s0 = o["s"] + len(st) - len(nm)
                else:
                    if ident_len(sl) != len(nm) or not sl.startswith(nm):
                        continue
                    s0 = o["s"]
                for off in range(s0, s0 + len(nm)):
                    oracle_at[line_col(b, off)] = o["ty"]
            oracle_points += len(oracle_at)
        for x in r["results"]:
            add_answers(f"sweep:{name}", text, x, {"base": name}, oracle_at)

    # ---------------- editing states (Editor.tla)
    ec = run_tlc("Editor", "Editor.cfg", workers=4, xmx="4g", timeout=600)
    edits = ec.json_prints("EDIT")
    if len(edits) != ec.distinct or len(edits) < 20000:
        raise ToolError("Editor: unexpected number of editing states")
    byte_edits = [e for e in edits if e["unit"] == "byte"]
    edits = [e for e in edits if e["unit"] == "token"]
    if len(byte_edits) < 3000:
        raise ToolError("Editor: keystroke states missing")
    rnd.shuffle(edits)
    ebases = bases[:1] + bases[1:3] if quick else bases[:8]
    toks = gv("parse", [{"id": k, "text": t, "mode": "cst"} for k, (n, t) in enumerate(ebases)])
    ereqs, emeta = [], []
    for (name, text), tk in zip(ebases, toks):
        ends = [0] + [t["e"] for t in tk["tokens"] if not t["triv"]]
        b = text.encode()
        for e in edits[: (700 if quick else len(edits))]:
            if e["cut"] >= len(ends):
                continue
            cut = ends[e["cut"]]
            tb = b[:cut] + PENDING_TEXT[e["pending"]].encode()
            t = tb.decode("utf-8", "replace")
            tb = t.encode()
            cur = e["cursor"]
            if cur == "end":
                pos = line_col(tb, len(tb))
            elif cur == "before-pending":
                pos = line_col(tb, cut)
            elif cur == "start":
                pos = (0, 0)
            elif cur == "middle":
                pos = line_col(tb, len(tb) // 2)
            elif cur == "past-line-end":
                l, c = line_col(tb, len(tb))
                pos = (l, c + 5)
            elif cur == "past-text-end":
                l, c = line_col(tb, len(tb))
                pos = (l + 3, 2)
            else:
                pos = line_col(tb, max(0, len(tb) - 1))
            ereqs.append({"id": len(ereqs), "text": t, "dir": memdir, "positions": [list(pos)], "limit_s": 120})
            emeta.append((name, e))
    # keystroke states: every byte prefix (moved back to a character boundary) of the text of all lexical forms, of the
    # declaration-table program and of corpus programs, cursor at the end / start / middle
    tbases = [("typing", fam_c20.TYPING_TEXT)] + [(n, t) for n, t in bases if n.startswith("corpus:") and len(t.encode()) <= 1500][: (2 if quick else 40)]
    if not quick:
        tbases.append(bases[0])
    for name, text in tbases:
        b = text.encode()
        for e in byte_edits:
            cut = e["cut"]
            if cut > len(b):
                continue
            while cut > 0 and cut < len(b) and (b[cut] & 0xC0) == 0x80:
                cut -= 1
            if cut != e["cut"] and e["cursor"] != "end":
                continue
            tb = b[:cut]
            pos = line_col(tb, len(tb)) if e["cursor"] == "end" else ((0, 0) if e["cursor"] == "start" else line_col(tb, len(tb) // 2))
            ereqs.append({"id": len(ereqs), "text": tb.decode(), "dir": memdir, "positions": [list(pos)], "limit_s": 120})
            emeta.append((name, e))
    # receivers of every kind of type, including ones the program cannot really have: completion must answer for all of them
    for rty in ("T[int32]", "T", "dyn Tr", "(int32, bool)", "[int32; 2]", "Vec[int32]", "Ref[int32]", "Ref[Pt]", "() -> int32", "unit", "string", "float64",
                "Unknown", "Unknown[int32]", "Pt[int32]", "Bx", "Bx[Bx[T]]", "Vec[T[int32]]"):
        for tail, col_off in ((".", 1), (".x", 2), ("::", 2), ("", 0)):
            t = ("struct Pt { xs: int32 }\nstruct Bx[T] { v: T }\ntrait Tr { fn m(Self) -> int32; }\nimpl[T] Bx[T] { fn get(self: Bx[T]) -> T { self.v } }\n"
                 f"fn f[T](x: {rty}) -> int32 {{\n    let y = x{tail}\n    0\n}}\nfn main() -> unit {{ () }}\n")
            line = 5
            ereqs.append({"id": len(ereqs), "text": t, "dir": memdir, "positions": [[line, len("    let y = x") + col_off]], "limit_s": 120})
            emeta.append(("receiver-types", {"unit": "receiver", "cut": rty, "pending": tail or "nothing", "cursor": "end"}))
    eres = gv_robust("query", ereqs)
    for q, (name, e), r in zip(ereqs, emeta, eres):
        rid0 = f"edit:{name}:{e['unit']}:{e['cut']}:{e['pending']}:{e['cursor']}"
        if r.get("fatal") or r.get("verdict") == "abort":
            rec(rid0, "hover", "timeout" if r.get("fatal") == "timeout" else "panic", about={"edit": e, "base": name, "panic_at": r.get("at"), "msg": r.get("msg"), "text": q["text"]})
            continue
        for x in r["results"]:
            add_answers(rid0, q["text"], x, {"edit": e, "base": name})

    # ---------------- completion sites
    sites = fam_c20.sites()
    sreqs = [{"id": k, "text": s["text"], "dir": memdir, "positions": [[s["line"], s["col"]]], "kinds": [s["kind"]]} for k, s in enumerate(sites)]
    sres = gv_parallel("query", sreqs)
    inserts = []
    for k, (s, r) in enumerate(zip(sites, sres)):
        v = r["results"][0][s["kind"]]
        s["offered"] = None if (v is None or isinstance(v, dict)) else [i["n"] for i in v]
        s["raw"] = v
        if s["offered"]:
            for n in s["offered"]:
                comp = s["exists"].get(n, n)
                inserts.append((k, n, s["head"] + s["stem"] + comp + ";\n" + s["tail"]))
    ires = gv_parallel("compile", [{"id": j, "text": t, "dir": memdir} for j, (k, n, t) in enumerate(inserts)])
    rejected = {}
    for (k, n, t), r in zip(inserts, ires):
        if r["verdict"] != "ok":
            rejected.setdefault(k, []).append((n, [d["msg"] for d in r.get("diags", [])][:2], r["verdict"]))
    offered_total = 0
    for k, s in enumerate(sites):
        rid = f"site:{s['what']}"
        pan, at = outcome_of(s["raw"])
        if pan:
            rec(rid, s["kind"], "panic", about={"site": s["what"], "panic_at": at, "text": s["text"]})
        elif s["offered"] is None:
            rec(rid, s["kind"], "none")
        else:
            offered_total += len(s["offered"])
            rj = rejected.get(k, [])
            rec(rid, s["kind"], "value", offered=s["offered"], exists=sorted(s["exists"]), rejected=[n for n, _, _ in rj],
                about={"site": s["what"], "offered": s["offered"], "exists": sorted(s["exists"]), "rejected": rj, "text": s["text"]})

    # ---------------- the web playground's wrappers (crates/wasm-app: hover, dot_completions, colon_colon_completions return
    # strings; the completion lists are JSON written by hand): same contract, at the completion sites and the editing states
    wreqs = [{"id": f"s{k}", "text": s_["text"], "fns": [], "positions": [[s_["line"], s_["col"]]]} for k, s_ in enumerate(sites)]
    wreqs += [{"id": f"e{k}", "text": q["text"], "fns": [], "positions": q["positions"]} for k, q in enumerate(ereqs[:: (6 if quick else 2)])]
    wres = gv_robust("web", wreqs)
    web_n = 0
    for q, r in zip(wreqs, wres):
        site = sites[int(q["id"][1:])] if q["id"].startswith("s") else None
        rid0 = "web:" + (f"site:{site['what']}" if site else f"edit:{q['id']}")
        if r.get("fatal") or r.get("verdict") == "abort":
            rec(rid0, "hover", "timeout" if r.get("fatal") == "timeout" else "panic", about={"base": "playground", "panic_at": r.get("at"), "msg": r.get("msg"), "text": q["text"]})
            continue
        for x in r["queries"]:
            for kind in ("hover", "dot", "colon"):
                v = x[kind]
                rid = f"{rid0}@{x['l']}:{x['c']}:{kind}"
                web_n += 1
                if "panic" in v:
                    rec(rid, kind, "panic", about={"base": "playground", "site": site["what"] if site else "", "panic_at": v["panic"], "msg": v.get("msg"), "text": q["text"]})
                elif kind == "hover":
                    rec(rid, kind, "none" if v["ok"].startswith("error") else "value", got="" if v["ok"].startswith("error") else v["ok"])
                else:
                    try:
                        names = [i_["name"] for i_ in json.loads(v["ok"])]
                    except Exception:
                        rec(rid, kind, "malformed", about={"base": "playground", "site": site["what"] if site else "", "msg": v["ok"][:300], "text": q["text"]})
                        continue
                    known = site is not None and kind == site["kind"]
                    rec(rid, kind, "value" if names else "none", offered=names, exists=sorted(site["exists"]) if known else ("*",),
                        about={"base": "playground", "site": site["what"], "offered": names, "exists": sorted(site["exists"]), "text": q["text"]} if known else None)
    # ---------------- validate against the contract
    d = workdir("c20-trace")
    problems = {}
    for k in range(0, len(records), 50000):
        ch = records[k:k + 50000]
        f = f"{d}/q{k}.ndjson"
        write_lines(f, ch)
        t = run_tlc("QueryTrace", "QueryTrace.cfg", env={"QUERIES": f}, workers=1, xmx="8g", timeout=3000, xss="256m", name=f"c20-trace-{k}")
        if t.rc != 0:
            raise ToolError("QueryTrace failed: " + (t.error or t.stdout[-1200:]))
        done = t.json_prints("QUERIESDONE")
        if not done or done[0]["n"] != len(ch):
            raise ToolError("QueryTrace did not read every query")
        for r in t.json_prints("QUERY"):
            problems[r["id"]] = r["problems"]
        os.remove(f)
    byid = {r["id"]: r for r in records}
    for rid, probs in problems.items():
        q = byid[rid]
        ab = info.get(rid, {})
        for pr in probs:
            if pr.startswith("no-answer"):
                where = rid.split("@")[0].split(":")[0]
                ident = f"{q['outcome']}:{q['kind']}:{ab.get('panic_at')}:{where}"
                if rid.startswith("web:"):
                    ident = f"{q['outcome']}:{q['kind']}:{ab.get('panic_at')}:playground"
            elif rid.startswith("site:") or rid.startswith("web:site:"):
                ident = f"{pr}:{q['kind']}:{ab.get('site', '').split('|')[0].rstrip('abcdefghijklmnopqrstuvwxyzABCDEFGHIJKLMNOPQRSTUVWXYZ')}"
            else:
                ident = f"{pr}:{q['kind']}:{ab.get('base', '?')}"
            detail = {"query": rid, "got": q["got"], "compiler_type": q["oracle"], "offered": q["offered"], "rejected": ab.get("rejected"), "panic": ab.get("msg"),
                      "err": ab.get("err"), "text": (ab.get("text") or "")[-2500:]}
            rep.violation(ident, detail, replay={"query": rid, "text": ab.get("text")})
    kinds = Counter((r["kind"], r["outcome"]) for r in records)
    rep.coverage.update({"states": ec.distinct, "transitions": ec.generated or ec.distinct, "traces_validated_against_impl": len(records),
                         "queries": len(records), "by_kind_and_outcome": {f"{k}:{o}": n for (k, o), n in kinds.items()},
                         "bases": len(bases), "bases_compiled_for_oracle": compiled_bases, "hover_positions_with_compiler_type": oracle_points,
                         "editing_states_in_model": len(edits), "editing_states_queried": len(ereqs), "completion_sites": len(sites),
                         "completions_offered_and_inserted": offered_total, "playground_queries": web_n})
    rep.sample({"site": sites[0]["what"], "offered": sites[0]["offered"], "exists": sorted(sites[0]["exists"])})
    if oracle_points < 300 or len(records) < 5000 or offered_total < 100:
        raise ToolError(f"vacuity: oracle points {oracle_points}, queries {len(records)}, offered {offered_total}")
    rep.assumptions += [
        "hover oracle: the typed AST of pipeline::compile (the compile path resolves types again after the checker; the query path does not go through it)",
        "completion existence oracle: the declaration table the program text was generated from (lib/fam_c20.py); completeness of the offers is not required by the property and not checked",
    ]
