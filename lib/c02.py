"""C02 — every accepted program yields Go that the Go compiler would accept.

The emitted text of every accepted program is parsed by an independent parser for the Go subset and walked by
spec/GoStatic.tla (Go's declaration, scope, type, use and terminating-statement rules as a TLC-executed
specification, calibrated on the repository's recorded corpus: every file real Go accepted must be accepted, the one
it rejected — 058 — must be rejected for the recorded reason).  Inputs: the corpus, the package projects and the
generated families shared with C01/C06-C10/C17-C19 (lib/families.py)."""
import os, re
from common import *
import corpus, engine, families

RULES = ["redeclared", "undefined", "declared and not used", "imported and not used", "cannot use value in", "expression is not used",
         "argument not assignable", "wrong argument count", "missing return", "mismatched types", "constant not representable",
         "division by zero", "void used as value", "non-boolean condition", "syntax", "impossible type", "duplicate case",
         "not enough return values", "too many return values", "call of non-function", "no field", "selector on non-struct",
         "composite literal", "bad field", "bad element", "operator", "break outside loop", "name declared as type and func"]


def rule_of(reason):
    for r in RULES:
        if r in reason:
            return r.replace(" ", "-")
    return re.sub(r"[^a-z]+", "-", reason.lower())[:40]


def calibrate(rep):
    """GoStatic on the recorded .go files: anti-false-alarm anchor (a failure here is a defect of *my* spec: exit 2)."""
    import gopipe
    recs = []
    for c in corpus.single_file_cases():
        if c["go"]:
            rec, err = gopipe.go_record(c["name"], open(c["go"]).read())
            if err:
                raise ToolError(f"calibration: recorded {c['name']}/main.gom.go does not parse: {err}")
            recs.append(rec)
    res, st = gopipe.run_sharded("GoStatic", "GoStatic.cfg", recs, name="c02-cal")
    for n, r in res.items():
        bad = [e for e in r["errs"] if not any(e["why"].startswith(u) for u in engine.STATIC_UNSUPPORTED)]
        if n == "058_lowercase_constructors":
            if not any("cannot use value in assignment" in e["why"] for e in bad):
                raise ToolError("calibration: GoStatic accepts the recorded 058 program that real Go rejected")
        elif bad:
            raise ToolError(f"calibration: GoStatic rejects recorded {n} which real Go accepted: {bad[:2]}")
    return len(recs), st


WIDTH = 120   # the width goml asks its Go printer to fill everywhere (CLI PRETTY_WIDTH, wasm-app, the tests, gv compile)


def _name(stem, n):
    """an identifier of exactly n characters (n >= len(stem) + 2)"""
    filler = "_quantity_measured_along_the_whole_length_of_the_consignment_and_recorded_by_the_clerk_on_duty_for_the_quarterly_report"
    s = stem + (filler * (n // len(filler) + 1))
    s = s[:n]
    return s[:-1] + "x" if s.endswith("_") else s


def _prose(n, k=0):
    """a string literal body of exactly n characters (letters, digits, spaces and punctuation that needs no escape)"""
    words = ["welcome", "to", "the", "quarterly", "inventory", "reconciliation", "report", "generator,", "version", "2", "(preview", "build)", "===",
             "prepared", "for:", "every", "warehouse", "north", "of", "the", "river;", "totals", "are", "in", "grams", "-", "not", "ounces."]
    s = ""
    i = k
    while len(s) < n:
        s += words[i % len(words)] + " "
        i += 1
    s = s[:n]
    return s[:-1] + "." if s.endswith(" ") else s


# operand classes of the operators goml has (ast BinaryOp / goast GoBinaryOp: + - * / < > <= >= == != && ||, and the prefix - !):
# (goml type, two run-time values, the operators applicable at the type)
_WIDE_CLASSES = {
    "int32": ("84", "12", ["+", "-", "*", "/", "<", "<=", ">", ">=", "==", "!="]),
    "int64": ("9223372036854775806i64", "4611686018427387903i64", ["+", "-", "*", "/", "<", "<=", ">", ">=", "==", "!="]),
    "uint8": ("200u8", "7u8", ["+", "-", "*", "/", "<", "<=", ">", ">=", "==", "!="]),
    "float64": ("7.5", "2.5", ["+", "-", "*", "/", "<", "<=", ">", ">=", "==", "!="]),
    "float32": ("7.5f32", "2.5f32", ["+", "-", "*", "/", "<", "<=", ">", ">=", "==", "!="]),
    "bool": ("true", "false", ["&&", "||", "==", "!="]),
    "string": ('"left"', '"right"', ["+", "==", "!="]),
}
_OPNAME = {"+": "add", "-": "sub", "*": "mul", "/": "div", "<": "lt", "<=": "le", ">": "gt", ">=": "ge", "==": "eq", "!=": "ne", "&&": "and", "||": "or"}


def _wide_operator_program(ty, op, L):
    """One program per (operand type, operator, length): the operation occurs with operands that make the emitted Go statement
    wider than the printer's width, at every position an operation can be emitted at (function result, let initialiser, call
    argument, condition of if / while, match scrutinee), the width coming from long names (both operands), from a long binder,
    and (strings, numbers) from long literals on the left, on the right and on both sides."""
    v1, v2, _ = _WIDE_CLASSES[ty]
    res = ty if op in "+-*/" else "bool"
    show = (lambda e: f"string_println({e})") if res == "string" else (lambda e: f"string_println({res}_to_string({e}))")
    pa, pb = _name("first_operand", L), _name("second_operand", L)
    la, lb = _name("left_local", L), _name("right_local", L)
    binder = _name("result_kept", 2 * L)
    lines = [f"fn tail_of_two_parameters({pa}: {ty}, {pb}: {ty}) -> {res} {{\n    {pa} {op} {pb}\n}}\n"]
    body = [f"let {la}: {ty} = {v1};", f"let {lb}: {ty} = {v2};",
            f"let {binder} = {la} {op} {lb};", f"let _ = {show(binder)};",
            f"let _ = {show(f'{la} {op} {lb}')};",
            f"let _ = {show(f'tail_of_two_parameters({v1}, {v2})')};"]
    # a long binder with short operands
    body += [f"let {binder}_b = {la} {op} {v2};", f"let _ = {show(binder + '_b')};"]
    if res == "bool":
        body += [f'let _ = string_println(if {la} {op} {lb} {{ "yes" }} else {{ "no" }});',
                 f'let _ = string_println(match {la} {op} {lb} {{ true => "yes", false => "no" }});',
                 f'let _ = (while {la} {op} {lb} && {la} {op} {lb} && false {{ () }});' if ty != "bool" else
                 f'let _ = (while ({la} {op} {lb}) && false {{ () }});']
    if ty == "string":
        ta, tb = _prose(L + 20, 0), _prose(L + 20, 5)
        body += [f'let _ = {show(f"{chr(34)}{ta}{chr(34)} {op} {la}")};', f'let _ = {show(f"{la} {op} {chr(34)}{tb}{chr(34)}")};',
                 f'let _ = {show(f"{chr(34)}{ta}{chr(34)} {op} {chr(34)}{tb}{chr(34)}")};',
                 f'let literal_on_the_left = "{ta}" {op} {la};', f'let literal_on_the_right = {la} {op} "{tb}";',
                 f"let _ = {show('literal_on_the_left')};", f"let _ = {show('literal_on_the_right')};"]
    elif ty != "bool":
        # number literals are at most ~20 characters: they widen the statement together with a long operand
        body += [f"let _ = {show(f'{v1} {op} {lb}')};", f"let _ = {show(f'{la} {op} {v2}')};"]
    lines.append("fn main() -> unit {\n" + "".join("    " + b + "\n" for b in body) + "    ()\n}\n")
    return "".join(lines)


def _wide_construct_programs(L):
    """The other statement forms of the emitted Go, each made wider than the printer's width by long names and long literals."""
    a, b, c = _name("alpha", L), _name("beta", L), _name("gamma", L)
    ta, tb, tc = _prose(L, 0), _prose(L, 3), _prose(L, 7)
    fa, fb = _name("field_one", L), _name("field_two", L)
    out = {}
    out["call-arguments"] = (
        f"fn join3({a}: string, {b}: string, {c}: string) -> string {{ {a} + {b} + {c} }}\n"
        f'fn main() -> unit {{\n    let {a} = "x";\n    let {b} = "y";\n    let {c} = "z";\n'
        f"    let _ = string_println(join3({a}, {b}, {c}));\n"
        f'    let _ = string_println(join3("{ta}", "{tb}", "{tc}"));\n    ()\n}}\n')
    out["signature"] = (
        f"fn {_name('compute', L)}({a}: int32, {b}: int32, {c}: int32) -> int32 {{ {a} }}\n"
        f"fn main() -> unit {{\n    let _ = string_println(int32_to_string({_name('compute', L)}(1, 2, 3)));\n    ()\n}}\n")
    out["print-literal"] = f'fn main() -> unit {{\n    let _ = string_println("{_prose(3 * L)}");\n    let _ = string_print("{_prose(3 * L, 4)}");\n    ()\n}}\n'
    out["struct-literal-and-fields"] = (
        f"struct Record {{ {fa}: string, {fb}: int32 }}\n"
        f"fn first(r: Record) -> string {{ r.{fa} }}\n"
        f"fn main() -> unit {{\n    let {a} = Record {{ {fa}: \"{ta}\", {fb}: 2147483647 }};\n"
        f"    let _ = string_println({a}.{fa} + int32_to_string({a}.{fb}));\n"
        f"    let Record {{ {fa}: {b}, {fb}: {c} }} = {a};\n    let _ = string_println({b} + int32_to_string({c}));\n"
        f"    let _ = string_println(first({a}));\n    ()\n}}\n")
    out["tuple"] = (
        f'fn main() -> unit {{\n    let {a} = "{ta}";\n    let {b} = 5;\n    let {c} = true;\n    let whole = ({a}, {b}, {c}, "{tb}");\n'
        f"    let ({a}_1, {b}_1, {c}_1, rest) = whole;\n"
        f"    let _ = string_println({a}_1 + int32_to_string({b}_1) + bool_to_string({c}_1) + rest);\n    ()\n}}\n")
    va, vb = "V" + _name("ariant_one", L - 1), "V" + _name("ariant_two", L - 1)
    out["enum-constructor-and-match"] = (
        f"enum Shape {{ {va}(string, string), {vb}(int32), Plain }}\n"
        f"fn describe(s: Shape) -> string {{\n    match s {{\n        {va}({a}, {b}) => {a} + {b},\n        {vb}({c}) => int32_to_string({c}),\n        Plain => \"plain\",\n    }}\n}}\n"
        f'fn main() -> unit {{\n    let _ = string_println(describe({va}("{ta}", "{tb}")));\n    let _ = string_println(describe({vb}(7)));\n'
        f"    let _ = string_println(describe(Plain));\n    ()\n}}\n")
    pa, pb = _prose(2 * L + 10, 0), _prose(2 * L + 10, 3)
    out["string-patterns"] = (
        f'fn classify(s: string) -> string {{\n    match s {{\n        "{pa}" => "first",\n        "{pb}" => "second",\n        _ => "other",\n    }}\n}}\n'
        f'fn main() -> unit {{\n    let _ = string_println(classify("{pa}"));\n    let _ = string_println(classify("{pb}"));\n    let _ = string_println(classify("x"));\n    ()\n}}\n')
    out["closure"] = (
        f"fn main() -> unit {{\n    let {c} = 10;\n    let combine = |{a}: int32, {b}: int32| {a} * {b} + {c};\n"
        f"    let _ = string_println(int32_to_string(combine(3, 4)));\n    ()\n}}\n")
    out["array-literal"] = (
        f"fn main() -> unit {{\n    let {a} = 1;\n    let {b} = 2;\n    let {c} = 3;\n    let all = [{a}, {b}, {c}];\n"
        f"    let _ = string_println(int32_to_string(array_get(all, 1)));\n"
        f'    let texts = ["{ta}", "{tb}"];\n    let _ = string_println(array_get(texts, 0));\n    ()\n}}\n')
    m = _name("render", L)
    out["trait-method-and-dyn"] = (
        f"struct Point {{ {fa}: int32 }}\ntrait Show {{\n    fn {m}(Self, string, string) -> string;\n}}\n"
        f"impl Show for Point {{\n    fn {m}(self: Point, {a}: string, {b}: string) -> string {{ {a} + int32_to_string(self.{fa}) + {b} }}\n}}\n"
        f'fn through(d: dyn Show) -> string {{ Show::{m}(d, "{ta}", "{tb}") }}\n'
        f'fn main() -> unit {{\n    let p = Point {{ {fa}: 3 }};\n    let _ = string_println(Show::{m}(p, "{ta}", "{tb}"));\n'
        f"    let d: dyn Show = Point {{ {fa}: 4 }};\n    let _ = string_println(through(d));\n    ()\n}}\n")
    g = "G" + _name("eneric_box", L - 1)
    out["generic-instances"] = (
        f"struct {g}[T] {{ {fa}: T }}\nfn unbox[T](x: {g}[T]) -> T {{ x.{fa} }}\n"
        f'fn main() -> unit {{\n    let _ = string_println(unbox({g} {{ {fa}: "{ta}" }}));\n'
        f"    let _ = string_println(int32_to_string(unbox({g} {{ {fa}: 5 }})));\n"
        f"    let _ = string_println(int32_to_string(unbox(unbox({g} {{ {fa}: {g} {{ {fa}: 6 }} }}))));\n    ()\n}}\n")
    out["references"] = (
        f'fn main() -> unit {{\n    let {a} = ref("{ta}");\n    let _ = ref_set({a}, ref_get({a}) + "{tb}");\n    let _ = string_println(ref_get({a}));\n    ()\n}}\n')
    out["prefix-operators"] = (
        f"fn flip({a}: bool) -> bool {{ !{a} }}\nfn minus({b}: int32) -> int32 {{ -{b} }}\n"
        f"fn main() -> unit {{\n    let {a} = true;\n    let {b} = 5;\n    let {_name('kept', 2 * L)} = !{a};\n    let {_name('held', 2 * L)} = -{b};\n"
        f"    let _ = string_println(bool_to_string(flip({_name('kept', 2 * L)})) + int32_to_string(minus({_name('held', 2 * L)})));\n    ()\n}}\n")
    out["operator-chain"] = (
        f"fn chain({a}: int32, {b}: int32, {c}: int32) -> int32 {{ {a} + {b} * {c} - {a} / {b} + {c} * {a} - {b} }}\n"
        f"fn all3({a}: bool, {b}: bool, {c}: bool) -> bool {{ {a} && {b} || {c} && !{a} || {b} == {c} }}\n"
        f'fn text({a}: string) -> string {{ "{_prose(L // 2)}" + {a} + "{_prose(L // 2, 3)}" + {a} + "{_prose(L // 2, 6)}" }}\n'
        f'fn main() -> unit {{\n    let _ = string_println(int32_to_string(chain(7, 3, 2)) + bool_to_string(all3(true, false, true)) + text("-"));\n    ()\n}}\n')
    return out


def wide_cases(root, tier):
    """Programs whose emitted Go has statements wider than the width the printer is asked to fill.  Go ends a statement at a
    newline that follows an operand, so *where* a printer that fills a width breaks a line is part of C02; a layout decision
    only shows on lines that do not fit.  Dimensions: operator x operand type x what makes the line wide (long names, long
    binder, long literal on either side) x position of the operation, and the other statement forms (calls, signatures, struct
    / tuple / enum / array literals, string switch cases, closures, methods, generic instances).  Lengths: just over the width
    and far over it in the quick tier; the thorough tier sweeps the operand length so that the widest line takes every width
    around the limit."""
    lengths = [61, 130] if tier == "quick" else [61, 130, 400]
    sweep = [] if tier == "quick" else list(range(40, 60))
    cases = []

    def add(ident, text):
        d = os.path.join(root, "wide_" + re.sub(r"[^A-Za-z0-9]+", "_", ident))
        os.makedirs(d, exist_ok=True)
        open(d + "/main.gom", "w").write(text)
        cases.append({"id": "wide:" + ident, "ident": "wide:" + ident, "path": d + "/main.gom", "family": "wide"})

    for ty, (_, _, ops) in _WIDE_CLASSES.items():
        for op in ops:
            for L in (lengths + sweep if ty in ("int32", "string", "bool") else lengths[:1] if tier == "quick" else lengths):
                add(f"operator:{ty}:{_OPNAME[op]}:len{L}", _wide_operator_program(ty, op, L))
    for L in lengths + sweep:
        for cn, text in _wide_construct_programs(L).items():
            add(f"construct:{cn}:len{L}", text)
    return cases


def run(tier, rep):
    build_harness()
    ncal, st0 = calibrate(rep)
    root = workdir("c02")
    cases = []
    for c in corpus.single_file_cases() + corpus.package_cases():
        cases.append({"id": "corpus:" + c["name"], "path": c["src"], "family": "corpus"})
    # statements wider than the width the Go printer is asked to fill (layout decisions show only there)
    cases += wide_cases(root, tier)
    import tv
    cases += tv.prepare_cases(families.all_families(tier, seed()), root)
    # extern declarations in every combination (functions only, types only used through functions, both, declared but unused,
    # used only from a function that is never called): the import list must be exactly what the emitted code uses
    ext = {
        "functions-only": 'extern "go" "strings" "ToUpper" to_upper(s: string) -> string\nextern "go" "strings" "Repeat" repeat(s: string, n: int32) -> string\n'
                          'fn main() -> unit {\n    let _ = string_println(to_upper("a") + repeat("b", 2));\n    ()\n}\n',
        "two-packages": 'extern "go" "strings" "ToUpper" to_upper(s: string) -> string\nextern "go" "strconv" "Itoa" itoa(n: int32) -> string\n'
                        'fn main() -> unit {\n    let _ = string_println(to_upper("a") + itoa(3));\n    ()\n}\n',
        "types-and-functions": 'extern type Time\nextern "go" "time" unix(secs: int32, nanos: int32) -> Time\nextern "go" "fmt" "Sprintf" show(f: string, v: Time) -> string\n'
                               'fn main() -> unit {\n    let _ = string_println(show("%v", unix(1, 2)));\n    ()\n}\n',
        "declared-but-unused": 'extern "go" "strings" "ToUpper" to_upper(s: string) -> string\nfn main() -> unit {\n    let _ = string_println("x");\n    ()\n}\n',
        "used-only-by-dead-function": 'extern "go" "strings" "ToUpper" to_upper(s: string) -> string\nfn never() -> string { to_upper("a") }\n'
                                      'fn main() -> unit {\n    let _ = string_println("x");\n    ()\n}\n',
        "function-value": 'extern "go" "strings" "ToUpper" to_upper(s: string) -> string\nfn ap(f: (string) -> string, s: string) -> string { f(s) }\n'
                          'fn main() -> unit {\n    let _ = string_println(ap(to_upper, "a"));\n    ()\n}\n',
    }
    for en, et in ext.items():
        dd = os.path.join(root, "extern_" + en)
        os.makedirs(dd, exist_ok=True)
        open(dd + "/main.gom", "w").write(et)
        cases.append({"id": "extern:" + en, "ident": "extern:" + en, "path": dd + "/main.gom", "family": "extern"})
    st = engine.evaluate(cases, static=True, sem=False, name="c02")
    wide_lines = wide_progs = 0
    for c in cases:
        if c["family"] == "wide" and c["compile"]["verdict"] == "ok":
            n = sum(1 for l in c["compile"]["go"].splitlines() if len(l) > WIDTH)
            wide_lines += n
            wide_progs += n > 0
    accepted = rejected = unsupported = notcompiled = 0
    fams = {}
    for c in cases:
        v = engine.static_verdict(c)
        fams.setdefault(c["family"], [0, 0])
        fams[c["family"]][0] += 1
        if c["compile"]["verdict"] in ("panic", "timeout"):
            notcompiled += 1   # C04's business
            continue
        if v is None:
            notcompiled += 1
            continue
        fams[c["family"]][1] += 1
        if v == "accept":
            accepted += 1
        elif v == "unsupported":
            unsupported += 1
        else:
            rejected += 1
            reason = engine.static_reason(c)
            ident = f"{c.get('ident', c['id'])}:{rule_of(reason)}"
            rep.violation(ident, {"case": c["id"], "go_error": reason,
                                  "where": (c["static"]["errs"][0]["fn"] if c["static"] and c["static"]["errs"] else None),
                                  "source": open(c["path"]).read()[:3000]}, replay={"path": c["path"]})
        if len(rep.samples) < 3 and c["family"] != "corpus":
            rep.sample({"case": c["id"], "verdict": v, "source": open(c["path"]).read()[:600]})
    if not rep.samples:
        rep.sample({"case": cases[0]["id"], "verdict": engine.static_verdict(cases[0])})
    rep.coverage.update({
        "programs": accepted + rejected + unsupported, "disagreements_checked": accepted + rejected,
        "calibration_files": ncal, "accepted_by_gostatic": accepted, "rejected_by_gostatic": rejected,
        "unsupported_constructs": unsupported, "not_compiled": notcompiled,
        "wide_programs_with_a_line_over_the_printer_width": wide_progs, "emitted_lines_over_the_printer_width": wide_lines,
        "families": {k: {"cases": v[0], "compiled": v[1]} for k, v in fams.items()},
        "states": st["states"] + st0["states"], "transitions": st["transitions"] + st0["transitions"],
    })
    rep.assumptions += ["GoStatic.tla is my specification of Go's static rules for the emitted subset, calibrated on the 74 recorded corpus files "
                        "(73 accepted by real Go, 1 rejected); there is no Go toolchain in the sandbox",
                        "constructs outside the subset (extern Go packages) are counted as unsupported, never as violations"]
