"""C02 — every accepted program yields Go that the Go compiler would accept.

The emitted text of every accepted program is parsed by an independent parser for the Go subset and walked by
spec/GoStatic.tla (Go's declaration, scope, type, use and terminating-statement rules as a TLC-executed
specification, calibrated on the repository's recorded corpus: every file real Go accepted must be accepted, the one
it rejected — 058 — must be rejected for the recorded reason).  Inputs: the corpus, the package projects and the
generated families shared with C01/C06-C10/C17-C19 (lib/families.py)."""
import os, re
from common import *
import corpus, engine, families

RULES = ["redeclared", "undefined", "declared and not used", "imported and not used", "cannot use value in", "expression is not used",
         "argument not assignable", "wrong argument count", "missing return", "mismatched types", "constant not representable",
         "division by zero", "void used as value", "non-boolean condition", "syntax", "impossible type", "duplicate case",
         "not enough return values", "too many return values", "call of non-function", "no field", "selector on non-struct",
         "composite literal", "bad field", "bad element", "operator", "break outside loop", "name declared as type and func"]


def rule_of(reason):
    for r in RULES:
        if r in reason:
            return r.replace(" ", "-")
    return re.sub(r"[^a-z]+", "-", reason.lower())[:40]


def calibrate(rep):
    """GoStatic on the recorded .go files: anti-false-alarm anchor (a failure here is a defect of *my* spec: exit 2)."""
    import gopipe
    recs = []
    for c in corpus.single_file_cases():
        if c["go"]:
            rec, err = gopipe.go_record(c["name"], open(c["go"]).read())
            if err:
                raise ToolError(f"calibration: recorded {c['name']}/main.gom.go does not parse: {err}")
            recs.append(rec)
    res, st = gopipe.run_sharded("GoStatic", "GoStatic.cfg", recs, name="c02-cal")
    for n, r in res.items():
        bad = [e for e in r["errs"] if not any(e["why"].startswith(u) for u in engine.STATIC_UNSUPPORTED)]
        if n == "058_lowercase_constructors":
            if not any("cannot use value in assignment" in e["why"] for e in bad):
                raise ToolError("calibration: GoStatic accepts the recorded 058 program that real Go rejected")
        elif bad:
            raise ToolError(f"calibration: GoStatic rejects recorded {n} which real Go accepted: {bad[:2]}")
    return len(recs), st


def run(tier, rep):
    build_harness()
    ncal, st0 = calibrate(rep)
    root = workdir("c02")
    cases = []
    for c in corpus.single_file_cases() + corpus.package_cases():
        cases.append({"id": "corpus:" + c["name"], "path": c["src"], "family": "corpus"})
    import tv
    cases += tv.prepare_cases(families.all_families(tier, seed()), root)
    # extern declarations in every combination (functions only, types only used through functions, both, declared but unused,
    # used only from a function that is never called): the import list must be exactly what the emitted code uses
    ext = {
        "functions-only": 'extern "go" "strings" "ToUpper" to_upper(s: string) -> string\nextern "go" "strings" "Repeat" repeat(s: string, n: int32) -> string\n'
                          'fn main() -> unit {\n    let _ = string_println(to_upper("a") + repeat("b", 2));\n    ()\n}\n',
        "two-packages": 'extern "go" "strings" "ToUpper" to_upper(s: string) -> string\nextern "go" "strconv" "Itoa" itoa(n: int32) -> string\n'
                        'fn main() -> unit {\n    let _ = string_println(to_upper("a") + itoa(3));\n    ()\n}\n',
        "types-and-functions": 'extern type Time\nextern "go" "time" unix(secs: int32, nanos: int32) -> Time\nextern "go" "fmt" "Sprintf" show(f: string, v: Time) -> string\n'
                               'fn main() -> unit {\n    let _ = string_println(show("%v", unix(1, 2)));\n    ()\n}\n',
        "declared-but-unused": 'extern "go" "strings" "ToUpper" to_upper(s: string) -> string\nfn main() -> unit {\n    let _ = string_println("x");\n    ()\n}\n',
        "used-only-by-dead-function": 'extern "go" "strings" "ToUpper" to_upper(s: string) -> string\nfn never() -> string { to_upper("a") }\n'
                                      'fn main() -> unit {\n    let _ = string_println("x");\n    ()\n}\n',
        "function-value": 'extern "go" "strings" "ToUpper" to_upper(s: string) -> string\nfn ap(f: (string) -> string, s: string) -> string { f(s) }\n'
                          'fn main() -> unit {\n    let _ = string_println(ap(to_upper, "a"));\n    ()\n}\n',
    }
    for en, et in ext.items():
        dd = os.path.join(root, "extern_" + en)
        os.makedirs(dd, exist_ok=True)
        open(dd + "/main.gom", "w").write(et)
        cases.append({"id": "extern:" + en, "ident": "extern:" + en, "path": dd + "/main.gom", "family": "extern"})
    st = engine.evaluate(cases, static=True, sem=False, name="c02")
    accepted = rejected = unsupported = notcompiled = 0
    fams = {}
    for c in cases:
        v = engine.static_verdict(c)
        fams.setdefault(c["family"], [0, 0])
        fams[c["family"]][0] += 1
        if c["compile"]["verdict"] in ("panic", "timeout"):
            notcompiled += 1   # C04's business
            continue
        if v is None:
            notcompiled += 1
            continue
        fams[c["family"]][1] += 1
        if v == "accept":
            accepted += 1
        elif v == "unsupported":
            unsupported += 1
        else:
            rejected += 1
            reason = engine.static_reason(c)
            ident = f"{c.get('ident', c['id'])}:{rule_of(reason)}"
            rep.violation(ident, {"case": c["id"], "go_error": reason,
                                  "where": (c["static"]["errs"][0]["fn"] if c["static"] and c["static"]["errs"] else None),
                                  "source": open(c["path"]).read()[:3000]}, replay={"path": c["path"]})
        if len(rep.samples) < 3 and c["family"] != "corpus":
            rep.sample({"case": c["id"], "verdict": v, "source": open(c["path"]).read()[:600]})
    if not rep.samples:
        rep.sample({"case": cases[0]["id"], "verdict": engine.static_verdict(cases[0])})
    rep.coverage.update({
        "programs": accepted + rejected + unsupported, "disagreements_checked": accepted + rejected,
        "calibration_files": ncal, "accepted_by_gostatic": accepted, "rejected_by_gostatic": rejected,
        "unsupported_constructs": unsupported, "not_compiled": notcompiled,
        "families": {k: {"cases": v[0], "compiled": v[1]} for k, v in fams.items()},
        "states": st["states"] + st0["states"], "transitions": st["transitions"] + st0["transitions"],
    })
    rep.assumptions += ["GoStatic.tla is my specification of Go's static rules for the emitted subset, calibrated on the 74 recorded corpus files "
                        "(73 accepted by real Go, 1 rejected); there is no Go toolchain in the sandbox",
                        "constructs outside the subset (extern Go packages) are counted as unsupported, never as violations"]
