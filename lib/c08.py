"""C08 — closures keep their lexical meaning after lambda lifting.

Capture sets (function parameter, let, pattern variable, outer closure parameter, Ref cell) x nesting depth (1-3) x
flow of the function value (let, tuple, struct field, array element, argument, if/match result, closure calling a
closure, call after mutating a captured Ref, call after shadowing a captured name, called twice) plus top-level
functions as values, zero-arity function values and returned counters.  Captured variables carry distinct weights, so
the printed number identifies which binder and which value was captured.  Meaning: GomlSem.tla (environment captured
by value at creation, Ref cells shared); implementation: the lambda-lifted Go run by GoSem.tla."""
from common import *
import famcheck, fam_c08

LEVEL = "translation_validation"


def run(tier, rep):
    build_harness()
    progs = fam_c08.programs(tier)
    cases, counts = famcheck.run_families("C08", rep, progs, "c08", goinvalid_is_violation=True)
    rep.coverage["go_invalid_not_decidable_here"] = counts.get("go-invalid", 0)
    rep.assumptions += famcheck.STD_ASSUMPTIONS + [
        "programs whose emitted Go is rejected by GoStatic (closure environment struct where a func type is expected: known C02 finding) cannot be executed "
        "and are counted, not compared"]
    if counts.get("agree", 0) < 25:
        raise ToolError("vacuity: fewer than 25 closure programs compared")
    # a closure handed to `go` where the spawn is the VALUE of a block (function body, branch, loop body, closure body): the closure
    # still runs, once - all schedules of both machines explored (the programs and the exploration are C09's)
    import c09go
    c09go.run(tier, rep, only="c09go:go-as-", floor=4)
