"""Resolve.tla bound to the real compiler (C17).

TLC model-checks Resolve.tla (method resolution: declarative meaning = the code-shaped lookup; what runs is an implementation for
the receiver's type; all spellings that name a trait agree; ambiguous dotted calls under two bounds are refused) and prints the
answer of the code-shaped definition for every (configuration, call form).  Every configuration is rendered as one program that
contains all forms the model accepts (each printing `<form id>=<tag of the implementation that ran>`) - the compiler must accept
it and its Go, run by GoSem.tla, must print exactly the model's tags - and one program per refused form, which the compiler must
refuse with a diagnostic.  `Resolve_overlap.cfg` (the design-level statement of the open finding about overlapping inherent
impls) must fail."""
import os
from common import *
import engine

RTYPE = {"i": "int32", "str": "string", "S": "S", "E": "E", "Gi": "G[int32]"}
RVAL = {"i": "7", "str": "\"s\"", "S": "S { v: 1 }", "E": "E::K(1)", "Gi": "G { v: 1 }"}
PATH = {"S": "S", "E": "E", "Gi": "G"}


def form_id(f):
    return "_".join(x for x in (f["f"], "".join(sorted(f["bs"])), f["d"] if f["d"] != "-" else "", f["t"] if f["t"] != "-" else "") if x)


def config_key(c):
    return (c["r"], tuple(sorted(c["decl"])), tuple(sorted(c["impl"])), tuple(sorted(c["inh"])))


def config_id(k):
    r, decl, impl, inh = k
    return f"{r}-decl{''.join(decl) or '0'}-impl{''.join(impl) or '0'}-inh{'+'.join(x.replace('@', '') for x in inh) or '0'}"


def prelude(k):
    r, decl, impl, inh = k
    out = ["struct S { v: int32 }", "enum E { K(int32), Z }", "struct G[T] { v: T }", "struct Other { v: int32 }"]
    for t in ("A", "B"):
        meth = "m" if t in decl else "k"
        out.append(f"trait {t} {{ fn {meth}(Self) -> string; }}")
        out.append(f"impl {t} for Other {{ fn {meth}(self: Other) -> string {{ \"{t}@Other\" }} }}")
        if t in impl:
            out.append(f"impl {t} for {RTYPE[r]} {{ fn {meth}(self: {RTYPE[r]}) -> string {{ \"{t}@{r}\" }} }}")
    for key in inh:
        if key == "exact@S":
            out.append('impl S { fn m(self: S) -> string { "exact@S" } }')
        elif key == "exact@E":
            out.append('impl E { fn m(self: E) -> string { "exact@E" } }')
        elif key == "exact@Gi":
            out.append('impl G[int32] { fn m(self: G[int32]) -> string { "exact@Gi" } }')
        elif key == "exact@Gb":
            out.append('impl G[bool] { fn m(self: G[bool]) -> string { "exact@Gb" } }')
        elif key == "constr@G":
            out.append('impl[T] G[T] { fn m(self: G[T]) -> string { "constr@G" } }')
    return out


def render_form(k, f, n):
    """(top-level items, statements of main) printing `<id>=<result>` for one form"""
    r = k[0]
    fid = form_id(f)
    items, stmts = [], []
    show = lambda e: f'    let _ = string_println("{fid}=" + {e});'
    if f["f"] == "dot":
        stmts.append(show("x.m()"))
    elif f["f"] == "tyq":
        stmts.append(show(f"{PATH[r]}::m(x)"))
    elif f["f"] == "trq":
        stmts.append(show(f"{f['t']}::m(x)"))
    elif f["f"] in ("bdot", "btrq"):
        bs = " + ".join(sorted(f["bs"]))
        body = "x.m()" if f["f"] == "bdot" else f"{f['t']}::m(x)"
        items.append(f"fn via_{fid}[T: {bs}](x: T) -> string {{ {body} }}")
        stmts.append(show(f"via_{fid}(x)"))
    elif f["f"] in ("dyntrq", "dyndot"):
        stmts.append(f"    let dd{n}: dyn {f['d']} = x;")
        stmts.append(show(f"dd{n}.m()" if f["f"] == "dyndot" else f"{f['t']}::m(dd{n})"))
    return items, stmts


def program(k, forms):
    items, stmts = [], []
    for n, f in enumerate(forms):
        i, s = render_form(k, f, n)
        items += i
        stmts += s
    r = k[0]
    return ("\n".join(prelude(k) + items) + f"\n\nfn main() -> unit {{\n    let x: {RTYPE[r]} = {RVAL[r]};\n    let o: Other = Other {{ v: 2 }};\n"
            + "\n".join(stmts) + "\n    let _ = o;\n    ()\n}\n")


def run(rep, tier):
    # ---- the design: Resolve.tla
    r = run_tlc("Resolve", "Resolve.cfg", workers=2, xmx="2g", timeout=600, coverage=False)
    if not tlc_ok(r, "Resolve"):
        rep.violation(f"model:Resolve:{r.violated}", {"trace": r.trace[-1:]})
    rep.coverage["resolve_model_states"] = r.distinct
    ro = run_tlc("Resolve", "Resolve_overlap.cfg", workers=2, xmx="2g", timeout=600)
    if ro.violated != "InherentFormsAgree":
        raise ToolError(f"Resolve_overlap.cfg must violate InherentFormsAgree (got {ro.violated}, rc={ro.rc})")
    re_ = run_tlc("Resolve", "Resolve_emit.cfg", workers=2, xmx="2g", timeout=600)
    if not tlc_ok(re_, "Resolve_emit"):
        rep.violation(f"model:Resolve_emit:{re_.violated}", {"trace": re_.trace[-1:]})
    lines = re_.json_prints("RESOLVE")
    if len(lines) != re_.distinct or len(lines) < 3000:
        raise ToolError(f"Resolve: {len(lines)} printed answers for {re_.distinct} states")
    by_cfg = {}
    for ln in lines:
        by_cfg.setdefault(config_key(ln), []).append(ln)
    # ---- the binding: one accepting program per configuration, one refusing program per refused form
    root = workdir("c17-resolve")
    cases = []
    skipped_dyn_generic = 0
    for k in sorted(by_cfg):
        cid = config_id(k)
        acc, expect = [], {}
        for ln in sorted(by_cfg[k], key=lambda l: form_id(l["form"])):
            f, a = ln["form"], ln["ans"]
            if a["k"] == "run":
                if k[0] == "Gi" and f["f"] == "dyntrq":
                    skipped_dyn_generic += 1      # open finding C02-dyn-wrapper-names-impl-of-generic-instance-differently: its Go is not runnable
                    continue
                acc.append(f)
                expect[form_id(f)] = a["v"]
            else:
                text = program(k, [f])
                rid = f"{cid}--{form_id(f)}"
                cases.append({"id": "rej_" + rid.replace("-", "_").replace("+", "_"), "kind": "reject", "why": a["v"], "cfg": cid, "form": form_id(f), "text": text, "overlap": ln["overlap"]})
        cases.append({"id": "acc_" + cid.replace("-", "_").replace("+", "_"), "kind": "accept", "cfg": cid, "expect": expect, "text": program(k, acc),
                      "overlap": any(l["overlap"] for l in by_cfg[k])})
    for c in cases:
        c["path"] = engine.write_case(root, c["id"], c["text"])
    accs = [c for c in cases if c["kind"] == "accept"]
    rejs = [c for c in cases if c["kind"] == "reject"]
    engine.evaluate(accs, static=False, sem=True, name="c17-resolve")
    answers = gv_parallel("compile", [{"id": c["id"], "path": c["path"], "dumps": False} for c in rejs])
    for c, a in zip(rejs, answers):
        c["compile"] = a
    agree = refused = 0
    for c in rejs:
        a = c["compile"]
        ident = f"c17:resolve:{c['cfg'].split('-')[0]}:{c['form']}:expected-{c['why']}"
        if a["verdict"] == "ok":
            rep.violation(ident + ":accepted", {"config": c["cfg"], "form": c["form"], "model_says": "refused: " + c["why"], "source": c["text"]}, replay={"path": c["path"]})
        elif a["verdict"] in ("panic", "timeout", "crash"):
            rep.violation(ident + ":" + a["verdict"], {"config": c["cfg"], "form": c["form"], "answer": {x: a.get(x) for x in ("verdict", "panic", "stage")}, "source": c["text"]}, replay={"path": c["path"]})
        else:
            refused += 1
    unsupported = 0
    for c in accs:
        a = c["compile"]
        ident = f"c17:resolve:{c['cfg']}"
        if a["verdict"] != "ok":
            rep.violation(ident + ":refused-although-every-form-resolves", {"config": c["cfg"], "forms": c["expect"], "verdict": a["verdict"], "diags": a.get("diags", [])[:4], "source": c["text"]}, replay={"path": c["path"]})
            continue
        if c["parse_error"] or not c["sem"] or c["sem"]["status"] != "ok":
            unsupported += 1
            why = c["parse_error"] or (c["sem"] or {}).get("why") or "not run"
            rep.violation(ident + ":go-not-runnable", {"config": c["cfg"], "why": str(why)[:300], "source": c["text"]}, replay={"path": c["path"]})
            continue
        got = dict(l.split("=", 1) for l in c["sem"]["out"].decode("utf-8", "replace").splitlines() if "=" in l)
        bad = {f: (got.get(f), e) for f, e in c["expect"].items() if got.get(f) != e}
        if bad:
            f0 = sorted(bad)[0]
            kind = "overlap:" if c["overlap"] else ""
            rep.violation(f"c17:resolve:{kind}{c['cfg'].split('-')[0]}:{f0}:ran-{bad[f0][0]}-model-{bad[f0][1]}",
                          {"config": c["cfg"], "form -> (ran, model)": bad, "source": c["text"]}, replay={"path": c["path"]})
        else:
            agree += 1
    for c in [c for c in accs if c.get("sem")][:1]:
        rep.sample({"case": "c17:resolve:" + c["cfg"], "kind": "accepting program: form -> implementation tag named by Resolve.tla",
                    "model": c["expect"], "printed_by_emitted_go": c["sem"]["out"].decode("utf-8", "replace")[:400], "source": c["text"][-900:]})
    for c in rejs[:1]:
        rep.sample({"case": "c17:resolve:" + c["cfg"] + ":" + c["form"], "kind": "form refused by Resolve.tla", "model": "refused: " + c["why"],
                    "compiler_verdict": c["compile"]["verdict"], "source": c["text"][-600:]})
    for t in (r, ro, re_):
        rep.coverage["states"] = rep.coverage.get("states", 0) + (t.distinct or 0)
        rep.coverage["transitions"] = rep.coverage.get("transitions", 0) + (t.generated or 0)
    rep.coverage["resolve_configurations"] = len(by_cfg)
    rep.coverage["resolve_forms_answered_by_model"] = len(lines)
    rep.coverage["resolve_accepting_programs_agree"] = agree
    rep.coverage["resolve_forms_run"] = sum(len(c["expect"]) for c in accs)
    rep.coverage["resolve_refused_forms_refused_by_compiler"] = refused
    rep.coverage["resolve_dyn_forms_on_generic_instance_left_to_open_finding"] = skipped_dyn_generic
    if agree < 200 or refused < 1500:
        if not rep.violations:
            raise ToolError(f"vacuity: Resolve binding compared {agree} accepting programs and {refused} refusals")
    return {"accepting_compared": agree, "refusals_compared": refused}
