"""C18 family: derived ToString / ToJson on non-generic structs and enums (nesting, recursion, hostile field names,
every field type the derive handles) x values, in particular strings over {a, ", \\, LF, TAB, 0x01, BEL, VT, DEL, é, /}."""
from gast import *

P = TAdt("P")
C = TAdt("C")
N = TAdt("N")
L = TAdt("L")
H = TAdt("H")
W = TAdt("W")
BOTH = ["ToString", "ToJson"]


def decls(p):
    p.struct("P", [("x", INT32), ("s", STRING), ("b", BOOL)], derives=BOTH)
    p.enum("C", [("R", []), ("G", [INT32]), ("B", [STRING, BOOL])], derives=BOTH)
    p.struct("N", [("p", P), ("c", C), ("u", UNIT)], derives=BOTH)
    p.enum("L", [("Nil", []), ("Cons", [INT32, L])], derives=BOTH)
    p.struct("H", [("x", INT32), ("tag", STRING), ("fields", BOOL), ("field0", INT32)], derives=BOTH)   # `self` cannot be a field name (keyword)
    p.struct("W", [("a", INT8), ("b", T("uint64")), ("c", INT64), ("d", T("uint8"))], derives=BOTH)
    p.struct("Z", [], derives=BOTH)


def both(v, tyname):
    """statements printing v.to_json(), v.to_string() and the T::to_json(v) spelling"""
    u = Derived("to_json", Var(v), form="ufcs")
    u["tyname"] = tyname
    return [println(Derived("to_json", Var(v))), println(Derived("to_string", Var(v))), println(u)]


def pval(x, s, b):
    return Struct(P, [("x", Int(x)), ("s", s), ("b", Bool(b))])


SPECIAL = {"newline": 10, "cr": 13, "quote": 34, "backslash": 92, "tab": 9, "ctrl-01": 1, "bel": 7, "vt": 11, "del": 127, "slash": 47, "ff": 12, "bs": 8, "esc": 27}


def programs(tier):
    out = []

    def add(ident, stmts, expect=None, extra_decl=None):
        p = Program("c18_" + ident.replace(":", "_").replace("-", "_"))
        decls(p)
        if extra_decl:
            extra_decl(p)
        p.fn("main", [], UNIT, Block(stmts, Unit))
        out.append({"prog": p, "family": "c18", "ident": "c18:" + ident, "expect": expect})

    add("struct:plain", [Let("v", pval(10, Str("Alice"), True), ty=P)] + both("v", "P"), expect="accept")
    add("struct:negative-empty", [Let("v", pval(-3, Str(""), False), ty=P)] + both("v", "P"), expect="accept")
    add("struct:utf8", [Let("v", pval(0, Str("héé ü"), False), ty=P)] + both("v", "P"), expect="accept")
    add("enum:unit-variant", [Let("v", Ctor(C, "R"), ty=C)] + both("v", "C"), expect="accept")
    add("enum:one-field", [Let("v", Ctor(C, "G", Int(255)), ty=C)] + both("v", "C"), expect="accept")
    add("enum:two-fields", [Let("v", Ctor(C, "B", Str("x y"), Bool(True)), ty=C)] + both("v", "C"), expect="accept")
    add("nested", [Let("v", Struct(N, [("p", pval(1, Str("in"), True)), ("c", Ctor(C, "B", Str("q"), Bool(False))), ("u", Unit)]), ty=N)] + both("v", "N"), expect="accept")
    add("recursive", [Let("v", Ctor(L, "Cons", Int(1), Ctor(L, "Cons", Int(2), Ctor(L, "Nil"))), ty=L)] + both("v", "L"), expect="accept")
    add("hostile-field-names", [Let("v", Struct(H, [("x", Int(1)), ("tag", Str("t")), ("fields", Bool(True)), ("field0", Int(2))]), ty=H)] + both("v", "H"), expect="accept")
    add("widths", [Let("v", Struct(W, [("a", Int(-128 + 1, "int8", suffix=True)), ("b", Int(18446744073709551615, "uint64", suffix=True)),
                                       ("c", Int(-9223372036854775807, "int64", suffix=True)), ("d", Int(255, "uint8", suffix=True))]), ty=W)] + both("v", "W"), expect="accept")
    add("empty-struct", [Let("v", Struct(TAdt("Z"), []), ty=TAdt("Z"))] + both("v", "Z"), expect="accept")
    # field names that are also names the generated bodies use: the runtime helpers the body calls, and an enum variant of the package
    def hdecl(p):
        p.struct("Hb", [("int32_to_string", INT32), ("json_escape_string", STRING), ("bool_to_json", BOOL), ("string_add", STRING)], derives=BOTH)
    def vdecl(p):
        p.enum("kl", [("red", []), ("blue", [INT32])], derives=BOTH)
        p.struct("Hv", [("red", INT32), ("blue", STRING)], derives=BOTH)
    add("field-named-like-a-runtime-helper", [Let("v", Struct(TAdt("Hb"), [("int32_to_string", Int(1)), ("json_escape_string", Str("a")), ("bool_to_json", Bool(True)), ("string_add", Str("b"))]), ty=TAdt("Hb"))] + both("v", "Hb"),
        expect="accept", extra_decl=hdecl)
    add("field-named-like-a-variant", [Let("v", Struct(TAdt("Hv"), [("red", Int(1)), ("blue", Str("b"))]), ty=TAdt("Hv"))] + both("v", "Hv"), expect="accept", extra_decl=vdecl)
    # unit-typed payloads and fields at every position (first / middle / last / alone / all), next to values of other types
    def udecl(p):
        p.enum("U", [("U1", [UNIT]), ("U2", [INT32, UNIT]), ("U3", [UNIT, INT32, INT32]), ("U4", [UNIT, STRING, UNIT]), ("U5", [P, UNIT, C]), ("U6", [UNIT, UNIT])], derives=BOTH)
        p.struct("Us", [("a", UNIT), ("b", INT32), ("c", UNIT), ("d", STRING), ("e", UNIT)], derives=BOTH)
    UU = TAdt("U")
    uvals = {"alone": Ctor(UU, "U1", Unit), "last": Ctor(UU, "U2", Int(7), Unit), "first": Ctor(UU, "U3", Unit, Int(8), Int(9)),
             "both-ends": Ctor(UU, "U4", Unit, Str("s"), Unit), "middle": Ctor(UU, "U5", pval(1, Str("in"), True), Unit, Ctor(C, "G", Int(5))),
             "all": Ctor(UU, "U6", Unit, Unit)}
    for name, v in uvals.items():
        add(f"unit-payload:{name}", [Let("v", v, ty=UU)] + both("v", "U"), expect="accept", extra_decl=udecl)
    add("unit-fields", [Let("v", Struct(TAdt("Us"), [("a", Unit), ("b", Int(1)), ("c", Unit), ("d", Str("x")), ("e", Unit)]), ty=TAdt("Us"))] + both("v", "Us"),
        expect="accept", extra_decl=udecl)
    # strings: every special character, alone and in company (written through multi-line string literals, which need a line feed)
    for name, b in SPECIAL.items():
        add(f"json-string:{name}", [Let("s", Str(bytes([97, b, 98]))), Let("v", pval(1, Var("s"), True), ty=P)] + both("v", "P"), expect="accept")
        if b not in (10, 13):
            add(f"json-string-multiline:{name}", [Let("s", Str(bytes([97, b, 98, 10, 99]), multiline=True)), Let("v", pval(1, Var("s"), True), ty=P)] + both("v", "P"), expect="accept")
    add("json-string:newline-only", [Let("s", Str(b"l1\nl2", multiline=True)), Let("v", Ctor(C, "B", Var("s"), Bool(True)), ty=C)] + both("v", "C"), expect="accept")
    add("json-string:mix", [Let("s", Str(b'"\\\n\t/ \xc3\xa9"')), Let("v", pval(1, Var("s"), True), ty=P)] + both("v", "P"), expect="accept")
    # characters outside ASCII: two-, three- and four-byte UTF-8 (JSON carries them verbatim; a \u escape of a rune up to U+FFFF would
    # decode to the same string, a \U escape is not JSON)
    for name, txt in (("latin", "caf\u00e9"), ("cjk", "\u4e16\u754c"), ("emoji", "hi \U0001f600"), ("mixed", "\u00e9\u4e16\U0001f600!")):
        add(f"json-string:non-ascii-{name}", [Let("s", Str(txt.encode("utf-8"))), Let("v", pval(1, Var("s"), True), ty=P)] + both("v", "P"), expect="accept")
    # comments after / below a derive attribute are trivia: the derive still applies
    def commented(p):
        p.struct("Sc", [("a", INT32), ("s", STRING)], derives=["ToString", "ToJson", "//"])
        p.enum("Ec", [("K0", []), ("K1", [TAdt("Sc")])], derives=["ToJson", "//", "|", "ToString", "//"])
    add("derive-attribute-followed-by-comment", [Let("v", Struct(TAdt("Sc"), [("a", Int(3)), ("s", Str("x"))]), ty=TAdt("Sc"))] + both("v", "Sc")
        + [Let("w", Ctor(TAdt("Ec"), "K1", Var("v")), ty=TAdt("Ec"))] + both("w", "Ec"), expect="accept", extra_decl=commented)
    for style, sname in (("//]", "brackets"), ("//#", "attribute-like-text"), ("//)", "closers-and-quotes")):
        def commented2(p, style=style):
            p.struct("Sc", [("a", INT32), ("s", STRING)], derives=["ToString", "ToJson", style])
            p.enum("Ec", [("K0", []), ("K1", [TAdt("Sc")])], derives=["ToJson", style, "|", "ToString", style])
        add(f"derive-attribute-followed-by-comment:{sname}", [Let("v", Struct(TAdt("Sc"), [("a", Int(3)), ("s", Str("x"))]), ty=TAdt("Sc"))] + both("v", "Sc")
            + [Let("w", Ctor(TAdt("Ec"), "K1", Var("v")), ty=TAdt("Ec"))] + both("w", "Ec"), expect="accept", extra_decl=commented2)
    # stacked derive attributes: #[derive(ToString)] and #[derive(ToJson)] on separate lines mean the same as one combined attribute
    def stacked(p):
        p.struct("St", [("a", INT32), ("s", STRING)], derives=["ToString"])
        p.structs[-1] = p.structs[-1][:3] + (["ToString", "|", "ToJson"],)
        p.enum("Se", [("K0", []), ("K1", [TAdt("St")])], derives=["ToJson", "|", "ToString"])
    add("stacked-derive-attributes", [Let("v", Struct(TAdt("St"), [("a", Int(3)), ("s", Str("x"))]), ty=TAdt("St"))] + both("v", "St")
        + [Let("w", Ctor(TAdt("Se"), "K1", Var("v")), ty=TAdt("Se"))] + both("w", "Se"), expect="accept", extra_decl=stacked)
    # floats
    def fdecl(p):
        p.struct("Fl", [("f", F64), ("g", F32)], derives=BOTH)
    fl = Struct(TAdt("Fl"), [("f", dict(Float(7, 2, "float64"))), ("g", dict(Float(-3, 4, "float32"), suffix=True))])
    add("floats", [Let("v", fl, ty=TAdt("Fl"))] + both("v", "Fl"), expect="accept", extra_decl=fdecl)
    # ---- types the derive cannot handle must be rejected by the derive itself (a diagnostic of the derive stage)
    bad = {
        "tuple-field": lambda p: p.struct("Bad", [("t", TTuple(INT32, BOOL))], derives=BOTH),
        "vec-field": lambda p: p.struct("Bad", [("t", TVec(INT32))], derives=BOTH),
        "array-field": lambda p: p.struct("Bad", [("t", TArray(2, INT32))], derives=BOTH),
        "ref-field": lambda p: p.struct("Bad", [("t", TRef(INT32))], derives=BOTH),
        "fn-field": lambda p: p.struct("Bad", [("t", TFn([INT32], INT32))], derives=BOTH),
        "non-derived-struct-field": lambda p: (p.struct("Plain", [("a", INT32)]), p.struct("Bad", [("t", TAdt("Plain"))], derives=BOTH)),
        "generic-struct": lambda p: p.struct("Bad", [("t", TParam("T"))], gens=["T"], derives=BOTH),
        "generic-enum": lambda p: p.enum("Bad", [("K", [TParam("T")])], gens=["T"], derives=BOTH),
        "variant-with-tuple": lambda p: p.enum("Bad", [("K", [TTuple(INT32, INT32)])], derives=BOTH),
    }
    for name, d in bad.items():
        add(f"underivable:{name}", [println(Str("unreachable"))], expect="reject", extra_decl=d)
    return out
