"""Pass-level translation validation: IRSem.tla (the meaning of Mono / Lift / ANF terms) evaluated by TLC on the terms the
real compiler produced; outcomes of the three stages are compared with the expected outcome of the program (GomlSem.tla's
for generated programs, the recorded output for corpus programs)."""
import os
from concurrent.futures import ThreadPoolExecutor
from common import *
import c03, gopipe


STAGES = ("core", "mono", "lift", "anf")


def prep(ir):
    ir = c03.prune(ir)

    def fix(v):
        if isinstance(v, dict):
            if v.get("k") == "prim":
                if "iv" in v:
                    n = int(v["iv"])
                    v["neg"] = n < 0
                    v["ds"] = [int(c) for c in str(abs(n))]
                if "fv" in v:
                    v.update(gopipe.float_parts(v["fv"]))
            for x in v.values():
                fix(x)
        elif isinstance(v, list):
            for x in v:
                fix(x)
    out = {}
    for st in STAGES:
        fix(ir[st]["fns"])
        out[st] = {"fns": ir[st]["fns"]}
    return out


def run_stages(items, name):
    """items: [(id, ir as exported)] -> {id: {stage: {status, why, out(bytes)}}}, states"""
    d = workdir(name)
    ready = []
    skipped = []
    for i, ir in items:
        p = prep(ir)
        if c03.depth(p) > 240:
            skipped.append(i)
            continue
        ready.append((i, p))
    chunks = [ready[k:k + 40] for k in range(0, len(ready), 40)]
    files = []
    for k, ch in enumerate(chunks):
        f = f"{d}/ir{k}.ndjson"
        write_lines(f, [{"id": i, "ir": ir} for i, ir in ch])
        files.append(f)

    def one(k):
        c = run_tlc("IRSemCheck", "IRSemCheck.cfg", env={"IRFILE": files[k]}, workers=1, xmx="3g", timeout=3000, xss="1g", name=f"{name}-{k}")
        if c.rc != 0:
            raise ToolError(f"IRSemCheck failed on chunk {k}: " + (c.error or c.stdout[-1500:]))
        done = c.json_prints("IRRUNDONE")
        if not done or done[0]["n"] != len(chunks[k]):
            raise ToolError("IRSemCheck did not read the whole chunk")
        return c
    out = {}
    states = 0
    with ThreadPoolExecutor(max_workers=12) as ex:
        for c in ex.map(one, range(len(chunks))):
            states += c.distinct or 0
            for r in c.json_prints("IRRUN"):
                out[r["id"]] = {st: {"status": r[st]["status"], "why": r[st]["why"], "out": bytes(r[st]["out"])} for st in STAGES}
    for f in files:
        os.remove(f)
    return out, states, skipped
