"""C03 family: programs whose intermediate representations exercise substitution — generic functions instantiated at
several types, closures inside generic functions (parameters, results and captures of type T), generic structs and
enums holding T, nested instantiation, generic inherent and trait methods, array / vec / ref builtins at every
instance.  They are ordinary well-typed programs; C03 checks the IR the compiler derives from them (IRTyping.tla)
and C01/C02 run them."""
from gast import *

TT = TParam("T")
UU = TParam("U")

# instantiation types: (type, a value, show expr builder)
def insts():
    P = TAdt("Pt")
    return [
        ("int32", INT32, Int(7), lambda e: show_int(e)),
        ("string", STRING, Str("ab"), lambda e: e),
        ("bool", BOOL, Bool(True), lambda e: Call("bool_to_string", e)),
        ("Pt", P, Struct(P, [("x", Int(3)), ("y", Int(4))]), lambda e: show_int(Field(e, "x"))),
        ("tuple", TTuple(INT32, STRING), Tuple(Int(5), Str("t")), lambda e: Match(e, [(PTuple(PWild, PVar("s_")), Var("s_"))])),
    ]


def decls(p):
    p.struct("Pt", [("x", INT32), ("y", INT32)])
    p.struct("Box", [("v", TT)], gens=["T"])
    p.struct("Pair", [("a", TT), ("b", UU)], gens=["T", "U"])
    p.enum("Opt", [("None_", []), ("Some_", [TT])], gens=["T"])


def programs(tier):
    out = []
    for iname, ity, ival, show in insts():
        # ---- closure inside a generic function: parameter, result and capture of type T
        p = Program("c03_gclo_" + iname)
        decls(p)
        p.fn("twice", [("x", TT), ("f", TFn([TT], TT))], TT,
             Block([Let("g", Lam([("y", TT)], CallV(Var("f"), CallV(Var("f"), Var("y")))))], CallV(Var("g"), Var("x"))), gens=["T"])
        p.fn("keep", [("v", TT), ("n", INT32)], TT,
             Block([Let("pick", Lam([("i", INT32)], If(Bin("<", Var("i"), Var("n")), Var("v"), Var("v"))))], CallV(Var("pick"), Int(0))), gens=["T"])
        p.fn("idf", [("v", TT)], TT, Var("v"), gens=["T"])
        p.fn("main", [], UNIT, Block([
            Let("a", ival, ty=ity),
            println(show(Call("keep", Var("a"), Int(3), targs=[ity]))),
            println(show(Call("twice", Var("a"), FnRef("idf", targs=[ity]), targs=[ity]))),
        ], Unit))
        out.append({"prog": p, "family": "c03", "ident": f"c03:generic-closure:{iname}"})
        # ---- a closure over T returned from a generic function
        p = Program("c03_gret_" + iname)
        decls(p)
        p.fn("konst", [("v", TT)], TFn([INT32], TT), Lam([("i", INT32)], Var("v")), gens=["T"])
        p.fn("main", [], UNIT, Block([
            Let("a", ival, ty=ity),
            Let("k", Call("konst", Var("a"), targs=[ity])),
            println(show(CallV(Var("k"), Int(1)))),
        ], Unit))
        out.append({"prog": p, "family": "c03", "ident": f"c03:generic-closure-returned:{iname}"})
        # ---- generic containers and nested instantiation
        p = Program("c03_gcont_" + iname)
        decls(p)
        BT = TAdt("Box", TT)
        p.fn("wrap", [("x", TT)], BT, Struct(BT, [("v", Var("x"))]), gens=["T"])
        p.fn("unwrap", [("b", BT)], TT, Field(Var("b"), "v"), gens=["T"])
        p.fn("rewrap", [("b", BT)], TAdt("Box", BT), Call("wrap", Var("b"), targs=[BT]), gens=["T"])
        OT = TAdt("Opt", TT)
        p.fn("some", [("x", TT)], OT, Ctor(OT, "Some_", Var("x")), gens=["T"])
        p.fn("or_else", [("o", OT), ("d", TT)], TT, Match(Var("o"), [(PCtor("None_"), Var("d")), (PCtor("Some_", PVar("v")), Var("v"))]), gens=["T"])
        PT = TAdt("Pair", TT, UU)
        p.fn("swap", [("p", PT)], TAdt("Pair", UU, TT), Struct(TAdt("Pair", UU, TT), [("a", Field(Var("p"), "b")), ("b", Field(Var("p"), "a"))]), gens=["T", "U"])
        BI = TAdt("Box", ity)
        p.fn("main", [], UNIT, Block([
            Let("a", ival, ty=ity),
            Let("b", Call("wrap", Var("a"), targs=[ity]), ty=BI),
            println(show(Call("unwrap", Var("b"), targs=[ity]))),
            Let("bb", Call("rewrap", Var("b"), targs=[ity]), ty=TAdt("Box", BI)),
            println(show(Call("unwrap", Call("unwrap", Var("bb"), targs=[BI]), targs=[ity]))),
            println(show(Call("or_else", Call("some", Var("a"), targs=[ity]), Var("a"), targs=[ity]))),
            Let("none", Ctor(TAdt("Opt", ity), "None_"), ty=TAdt("Opt", ity)),
            println(show(Call("or_else", Var("none"), Var("a"), targs=[ity]))),
            Let("pr", Struct(TAdt("Pair", ity, INT32), [("a", Var("a")), ("b", Int(9))]), ty=TAdt("Pair", ity, INT32)),
            Let("sw", Call("swap", Var("pr"), targs=[ity, INT32]), ty=TAdt("Pair", INT32, ity)),
            println(show(Field(Var("sw"), "b"))),
            println(show_int(Field(Var("sw"), "a"))),
        ], Unit))
        out.append({"prog": p, "family": "c03", "ident": f"c03:generic-containers:{iname}"})
        # ---- builtins at this instance: vec, ref, array
        p = Program("c03_builtins_" + iname)
        decls(p)
        p.fn("first", [("v", TVec(TT))], TT, Call("vec_get", Var("v"), Int(0)), gens=["T"])
        p.fn("cell", [("x", TT)], TRef(TT), Call("ref", Var("x")), gens=["T"])
        p.fn("main", [], UNIT, Block([
            Let("a", ival, ty=ity),
            Let("v0", Call("vec_new"), ty=TVec(ity)),
            Let("v1", Call("vec_push", Var("v0"), Var("a")), ty=TVec(ity)),
            println(show(Call("first", Var("v1"), targs=[ity]))),
            println(show_int(Call("vec_len", Var("v1")))),
            Let("r", Call("cell", Var("a"), targs=[ity]), ty=TRef(ity)),
            Do(Call("ref_set", Var("r"), Call("ref_get", Var("r")))),
            println(show(Call("ref_get", Var("r")))),
            Let("arr", Array(Var("a"), Var("a")), ty=TArray(2, ity)),
            Let("arr2", Call("array_set", Var("arr"), Int(1), Var("a")), ty=TArray(2, ity)),
            Let("arr3", Call("array_set", Var("arr2"), Int(0), Call("array_get", Var("arr"), Int(1)))),
            println(show(Call("array_get", Var("arr3"), Int(0)))),
        ], Unit))
        out.append({"prog": p, "family": "c03", "ident": f"c03:builtins:{iname}"})
        # ---- generic inherent and trait methods, bounds, dyn
        p = Program("c03_gmeth_" + iname)
        decls(p)
        p.trait("Named", [("name", [], STRING)])
        p.impl("Named", ity, [("name", [("self", ity)], STRING, Str("n-" + iname))])
        if iname != "int32":
            p.impl("Named", INT32, [("name", [("self", INT32)], STRING, Str("n-int"))])
        BT = TAdt("Box", TT)
        p.impl(None, BT, [("get", [("self", BT)], TT, Field(Var("self"), "v")),
                          ("with", [("self", BT), ("x", TT)], BT, Struct(BT, [("v", Var("x"))]))], gens=["T"])
        p.fn("nm", [("x", TT)], STRING, TCall("Named", "name", Var("x")), gens=[("T", ["Named"])])
        p.fn("nm2", [("x", TT), ("y", UU)], STRING, Bin("+", TCall("Named", "name", Var("x"), form="method"), TCall("Named", "name", Var("y"))),
             gens=[("T", ["Named"]), ("U", ["Named"])])
        p.fn("dn", [("d", TDyn("Named"))], STRING, TCall("Named", "name", Var("d")))
        BI = TAdt("Box", ity)
        iname_ = "inherent#" + tykey(BT).lstrip("%") + "#"
        g1 = Call(iname_ + "get", Var("b"), targs=[ity]); g1["form"] = "method"
        w1 = Call(iname_ + "with", Var("b"), Var("a"), targs=[ity]); w1["form"] = "method"
        g2 = Call(iname_ + "get", Var("b2"), targs=[ity]); g2["form"] = "method"
        p.fn("main", [], UNIT, Block([
            Let("a", ival, ty=ity),
            Let("b", Struct(BI, [("v", Var("a"))]), ty=BI),
            println(show(g1)),
            Let("b2", w1, ty=BI),
            println(show(g2)),
            println(Call("nm", Var("a"), targs=[ity])),
            println(Call("nm2", Var("a"), Int(1), targs=[ity, INT32])),
            println(Call("dn", ToDyn("Named", Var("a")))),
        ], Unit))
        out.append({"prog": p, "family": "c03", "ident": f"c03:generic-methods:{iname}"})
        # ---- a captured variable used in exactly one syntactic position inside the closure (capture analysis must see every position)
    P = TAdt("Pt")
    positions = {
        "dyn-call-receiver": (TDyn("Named"), ToDyn("Named", Int(5)), TCall("Named", "name", Var("c"))),
        "trait-call-receiver": (P, Struct(P, [("x", Int(1)), ("y", Int(2))]), TCall("Named", "name", Var("c"))),
        "field-base": (P, Struct(P, [("x", Int(1)), ("y", Int(2))]), show_int(Field(Var("c"), "y"))),
        "match-scrutinee": (TAdt("Opt", INT32), Ctor(TAdt("Opt", INT32), "Some_", Int(4)), show_int(Match(Var("c"), [(PCtor("None_"), Int(0)), (PCtor("Some_", PVar("v")), Var("v"))]))),
        "callee": (TFn([INT32], INT32), FnRef("inc"), show_int(CallV(Var("c"), Int(1)))),
        "array-index": (INT32, Int(1), show_int(Call("array_get", Array(Int(7), Int(8), Int(9)), Var("c")))),
        "struct-literal-field": (INT32, Int(6), show_int(Field(Struct(P, [("x", Var("c")), ("y", Int(0))]), "x"))),
        "to-dyn-operand": (INT32, Int(5), Call("dn", ToDyn("Named", Var("c")))),
        "if-condition": (BOOL, Bool(True), If(Var("c"), Str("t"), Str("f"))),
        "while-condition": (TRef(BOOL), Call("ref", Bool(True)), Block([Stmt(While(Call("ref_get", Var("c")), Block([Do(Call("ref_set", Var("c"), Bool(False)))], Unit)))], Str("w"))),
        "tuple-projection": (TTuple(INT32, STRING), Tuple(Int(1), Str("p")), Proj(Var("c"), 1)),
        "unary-operand": (INT32, Int(3), show_int(Un("-", Var("c")))),
        "binary-right": (STRING, Str("r"), Bin("+", Str("l"), Var("c"))),
        "nested-closure": (STRING, Str("n"), Block([Let("g", Lam([], Var("c")))], CallV(Var("g")))),
        "constructor-argument": (INT32, Int(2), show_int(Match(Ctor(TAdt("Opt", INT32), "Some_", Var("c")), [(PCtor("None_"), Int(0)), (PCtor("Some_", PVar("v")), Var("v"))]))),
    }
    for pname, (cty, cval, use) in positions.items():
        p = Program("c03_cap_" + pname.replace("-", "_"))
        decls(p)
        p.trait("Named", [("name", [], STRING)])
        p.impl("Named", INT32, [("name", [("self", INT32)], STRING, Str("n-int"))])
        p.impl("Named", P, [("name", [("self", P)], STRING, Str("n-pt"))])
        p.fn("inc", [("x", INT32)], INT32, Bin("+", Var("x"), Int(1)))
        p.fn("dn", [("d", TDyn("Named"))], STRING, TCall("Named", "name", Var("d")))
        p.fn("main", [], UNIT, Block([
            Let("c", cval, ty=cty),
            Let("f", Lam([], use)),
            println(CallV(Var("f"))),
        ], Unit))
        out.append({"prog": p, "family": "c03", "ident": f"c03:captured-only-as:{pname}"})
    return out
