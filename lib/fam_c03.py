"""C03 family: programs whose intermediate representations exercise substitution — generic functions instantiated at
several types, closures inside generic functions (parameters, results and captures of type T), generic structs and
enums holding T, nested instantiation, generic inherent and trait methods, array / vec / ref builtins at every
instance.  They are ordinary well-typed programs; C03 checks the IR the compiler derives from them (IRTyping.tla)
and C01/C02 run them."""
from gast import *

TT = TParam("T")
UU = TParam("U")

# instantiation types: (type, a value, show expr builder)
def insts():
    P = TAdt("Pt")
    return [
        ("int32", INT32, Int(7), lambda e: show_int(e)),
        ("string", STRING, Str("ab"), lambda e: e),
        ("bool", BOOL, Bool(True), lambda e: Call("bool_to_string", e)),
        ("Pt", P, Struct(P, [("x", Int(3)), ("y", Int(4))]), lambda e: show_int(Field(e, "x"))),
        ("tuple", TTuple(INT32, STRING), Tuple(Int(5), Str("t")), lambda e: Match(e, [(PTuple(PWild, PVar("s_")), Var("s_"))])),
    ]


def decls(p):
    p.struct("Pt", [("x", INT32), ("y", INT32)])
    p.struct("Box", [("v", TT)], gens=["T"])
    p.struct("Pair", [("a", TT), ("b", UU)], gens=["T", "U"])
    p.enum("Opt", [("None_", []), ("Some_", [TT])], gens=["T"])


def programs(tier):
    out = []
    for iname, ity, ival, show in insts():
        # ---- closure inside a generic function: parameter, result and capture of type T
        p = Program("c03_gclo_" + iname)
        decls(p)
        p.fn("twice", [("x", TT), ("f", TFn([TT], TT))], TT,
             Block([Let("g", Lam([("y", TT)], CallV(Var("f"), CallV(Var("f"), Var("y")))))], CallV(Var("g"), Var("x"))), gens=["T"])
        p.fn("keep", [("v", TT), ("n", INT32)], TT,
             Block([Let("pick", Lam([("i", INT32)], If(Bin("<", Var("i"), Var("n")), Var("v"), Var("v"))))], CallV(Var("pick"), Int(0))), gens=["T"])
        p.fn("idf", [("v", TT)], TT, Var("v"), gens=["T"])
        p.fn("main", [], UNIT, Block([
            Let("a", ival, ty=ity),
            println(show(Call("keep", Var("a"), Int(3), targs=[ity]))),
            println(show(Call("twice", Var("a"), FnRef("idf", targs=[ity]), targs=[ity]))),
        ], Unit))
        out.append({"prog": p, "family": "c03", "ident": f"c03:generic-closure:{iname}"})
        # ---- a closure over T returned from a generic function
        p = Program("c03_gret_" + iname)
        decls(p)
        p.fn("konst", [("v", TT)], TFn([INT32], TT), Lam([("i", INT32)], Var("v")), gens=["T"])
        p.fn("main", [], UNIT, Block([
            Let("a", ival, ty=ity),
            Let("k", Call("konst", Var("a"), targs=[ity])),
            println(show(CallV(Var("k"), Int(1)))),
        ], Unit))
        out.append({"prog": p, "family": "c03", "ident": f"c03:generic-closure-returned:{iname}"})
        # ---- generic containers and nested instantiation
        p = Program("c03_gcont_" + iname)
        decls(p)
        BT = TAdt("Box", TT)
        p.fn("wrap", [("x", TT)], BT, Struct(BT, [("v", Var("x"))]), gens=["T"])
        p.fn("unwrap", [("b", BT)], TT, Field(Var("b"), "v"), gens=["T"])
        p.fn("rewrap", [("b", BT)], TAdt("Box", BT), Call("wrap", Var("b"), targs=[BT]), gens=["T"])
        OT = TAdt("Opt", TT)
        p.fn("some", [("x", TT)], OT, Ctor(OT, "Some_", Var("x")), gens=["T"])
        p.fn("or_else", [("o", OT), ("d", TT)], TT, Match(Var("o"), [(PCtor("None_"), Var("d")), (PCtor("Some_", PVar("v")), Var("v"))]), gens=["T"])
        PT = TAdt("Pair", TT, UU)
        p.fn("swap", [("p", PT)], TAdt("Pair", UU, TT), Struct(TAdt("Pair", UU, TT), [("a", Field(Var("p"), "b")), ("b", Field(Var("p"), "a"))]), gens=["T", "U"])
        BI = TAdt("Box", ity)
        p.fn("main", [], UNIT, Block([
            Let("a", ival, ty=ity),
            Let("b", Call("wrap", Var("a"), targs=[ity]), ty=BI),
            println(show(Call("unwrap", Var("b"), targs=[ity]))),
            Let("bb", Call("rewrap", Var("b"), targs=[ity]), ty=TAdt("Box", BI)),
            println(show(Call("unwrap", Call("unwrap", Var("bb"), targs=[BI]), targs=[ity]))),
            println(show(Call("or_else", Call("some", Var("a"), targs=[ity]), Var("a"), targs=[ity]))),
            Let("none", Ctor(TAdt("Opt", ity), "None_"), ty=TAdt("Opt", ity)),
            println(show(Call("or_else", Var("none"), Var("a"), targs=[ity]))),
            Let("pr", Struct(TAdt("Pair", ity, INT32), [("a", Var("a")), ("b", Int(9))]), ty=TAdt("Pair", ity, INT32)),
            Let("sw", Call("swap", Var("pr"), targs=[ity, INT32]), ty=TAdt("Pair", INT32, ity)),
            println(show(Field(Var("sw"), "b"))),
            println(show_int(Field(Var("sw"), "a"))),
        ], Unit))
        out.append({"prog": p, "family": "c03", "ident": f"c03:generic-containers:{iname}"})
        # ---- builtins at this instance: vec, ref, array
        p = Program("c03_builtins_" + iname)
        decls(p)
        p.fn("first", [("v", TVec(TT))], TT, Call("vec_get", Var("v"), Int(0)), gens=["T"])
        p.fn("cell", [("x", TT)], TRef(TT), Call("ref", Var("x")), gens=["T"])
        p.fn("main", [], UNIT, Block([
            Let("a", ival, ty=ity),
            Let("v0", Call("vec_new"), ty=TVec(ity)),
            Let("v1", Call("vec_push", Var("v0"), Var("a")), ty=TVec(ity)),
            println(show(Call("first", Var("v1"), targs=[ity]))),
            println(show_int(Call("vec_len", Var("v1")))),
            Let("r", Call("cell", Var("a"), targs=[ity]), ty=TRef(ity)),
            Do(Call("ref_set", Var("r"), Call("ref_get", Var("r")))),
            println(show(Call("ref_get", Var("r")))),
            Let("arr", Array(Var("a"), Var("a")), ty=TArray(2, ity)),
            Let("arr2", Call("array_set", Var("arr"), Int(1), Var("a")), ty=TArray(2, ity)),
            Let("arr3", Call("array_set", Var("arr2"), Int(0), Call("array_get", Var("arr"), Int(1)))),
            println(show(Call("array_get", Var("arr3"), Int(0)))),
        ], Unit))
        out.append({"prog": p, "family": "c03", "ident": f"c03:builtins:{iname}"})
        # ---- generic inherent and trait methods, bounds, dyn
        p = Program("c03_gmeth_" + iname)
        decls(p)
        p.trait("Named", [("name", [], STRING)])
        p.impl("Named", ity, [("name", [("self", ity)], STRING, Str("n-" + iname))])
        if iname != "int32":
            p.impl("Named", INT32, [("name", [("self", INT32)], STRING, Str("n-int"))])
        BT = TAdt("Box", TT)
        p.impl(None, BT, [("get", [("self", BT)], TT, Field(Var("self"), "v")),
                          ("with", [("self", BT), ("x", TT)], BT, Struct(BT, [("v", Var("x"))]))], gens=["T"])
        p.fn("nm", [("x", TT)], STRING, TCall("Named", "name", Var("x")), gens=[("T", ["Named"])])
        p.fn("nm2", [("x", TT), ("y", UU)], STRING, Bin("+", TCall("Named", "name", Var("x"), form="method"), TCall("Named", "name", Var("y"))),
             gens=[("T", ["Named"]), ("U", ["Named"])])
        p.fn("dn", [("d", TDyn("Named"))], STRING, TCall("Named", "name", Var("d")))
        BI = TAdt("Box", ity)
        iname_ = "inherent#" + tykey(BT).lstrip("%") + "#"
        g1 = Call(iname_ + "get", Var("b"), targs=[ity]); g1["form"] = "method"
        w1 = Call(iname_ + "with", Var("b"), Var("a"), targs=[ity]); w1["form"] = "method"
        g2 = Call(iname_ + "get", Var("b2"), targs=[ity]); g2["form"] = "method"
        p.fn("main", [], UNIT, Block([
            Let("a", ival, ty=ity),
            Let("b", Struct(BI, [("v", Var("a"))]), ty=BI),
            println(show(g1)),
            Let("b2", w1, ty=BI),
            println(show(g2)),
            println(Call("nm", Var("a"), targs=[ity])),
            println(Call("nm2", Var("a"), Int(1), targs=[ity, INT32])),
            println(Call("dn", ToDyn("Named", Var("a")))),
        ], Unit))
        out.append({"prog": p, "family": "c03", "ident": f"c03:generic-methods:{iname}"})
        # ---- a captured variable used in exactly one syntactic position inside the closure (capture analysis must see every position)
    P = TAdt("Pt")
    positions = {
        "dyn-call-receiver": (TDyn("Named"), ToDyn("Named", Int(5)), TCall("Named", "name", Var("c"))),
        "trait-call-receiver": (P, Struct(P, [("x", Int(1)), ("y", Int(2))]), TCall("Named", "name", Var("c"))),
        "field-base": (P, Struct(P, [("x", Int(1)), ("y", Int(2))]), show_int(Field(Var("c"), "y"))),
        "match-scrutinee": (TAdt("Opt", INT32), Ctor(TAdt("Opt", INT32), "Some_", Int(4)), show_int(Match(Var("c"), [(PCtor("None_"), Int(0)), (PCtor("Some_", PVar("v")), Var("v"))]))),
        "callee": (TFn([INT32], INT32), FnRef("inc"), show_int(CallV(Var("c"), Int(1)))),
        "array-index": (INT32, Int(1), show_int(Call("array_get", Array(Int(7), Int(8), Int(9)), Var("c")))),
        "struct-literal-field": (INT32, Int(6), show_int(Field(Struct(P, [("x", Var("c")), ("y", Int(0))]), "x"))),
        "to-dyn-operand": (INT32, Int(5), Call("dn", ToDyn("Named", Var("c")))),
        "if-condition": (BOOL, Bool(True), If(Var("c"), Str("t"), Str("f"))),
        "while-condition": (TRef(BOOL), Call("ref", Bool(True)), Block([Stmt(While(Call("ref_get", Var("c")), Block([Do(Call("ref_set", Var("c"), Bool(False)))], Unit)))], Str("w"))),
        "tuple-projection": (TTuple(INT32, STRING), Tuple(Int(1), Str("p")), Proj(Var("c"), 1)),
        "unary-operand": (INT32, Int(3), show_int(Un("-", Var("c")))),
        "binary-right": (STRING, Str("r"), Bin("+", Str("l"), Var("c"))),
        "nested-closure": (STRING, Str("n"), Block([Let("g", Lam([], Var("c")))], CallV(Var("g")))),
        "constructor-argument": (INT32, Int(2), show_int(Match(Ctor(TAdt("Opt", INT32), "Some_", Var("c")), [(PCtor("None_"), Int(0)), (PCtor("Some_", PVar("v")), Var("v"))]))),
    }
    for pname, (cty, cval, use) in positions.items():
        p = Program("c03_cap_" + pname.replace("-", "_"))
        decls(p)
        p.trait("Named", [("name", [], STRING)])
        p.impl("Named", INT32, [("name", [("self", INT32)], STRING, Str("n-int"))])
        p.impl("Named", P, [("name", [("self", P)], STRING, Str("n-pt"))])
        p.fn("inc", [("x", INT32)], INT32, Bin("+", Var("x"), Int(1)))
        p.fn("dn", [("d", TDyn("Named"))], STRING, TCall("Named", "name", Var("d")))
        p.fn("main", [], UNIT, Block([
            Let("c", cval, ty=cty),
            Let("f", Lam([], use)),
            println(CallV(Var("f"))),
        ], Unit))
        out.append({"prog": p, "family": "c03", "ident": f"c03:captured-only-as:{pname}"})
    out += self_programs(tier)
    out += [c for c in names_cases(tier) if c.get("runnable")]
    return out


# ================================================================ `Self` under every type former in impl method headers
# An impl method may write `Self` anywhere in its parameter and result types.  The header of the method is rewritten with
# the impl's for-type in several places of the compiler (scheme seen by callers, types the body is checked against, the
# header written into the typed AST that Core/Mono/Lift/ANF/Go are derived from); all of them must replace `Self` below
# every type former.  For each self kind (inherent impl on a struct / an enum / a generic struct, trait impl on a struct /
# on int32) and each path of type formers F1.F2.. the family has two methods
#     fn mk_<path>(self: Self) -> F1[F2[Self]]             -- Self in result position
#     fn tk_<path>(self: Self, x: F1[F2[Self]]) -> int32   -- Self in parameter position
# whose bodies build / take apart the value with the formers' own constructors and eliminators (written with the
# concrete type, so that only the headers mention Self), and main calls tk(mk(a)).
SELF = TAdt("Self")


def _f(name, ty, cons, elim):
    return {"name": name, "ty": ty, "cons": cons, "elim": elim}


# cons(e, t, d): an expression of type F[t] from e : t;  elim(x, t, dflt, d): an expression of type t from x : F[t]
# (dflt : t is used where the eliminator needs a value of the inner type); d = nesting depth, keeps bound names apart
FORMERS = [
    _f("vec", TVec, lambda e, t, d: Call("vec_push", Call("vec_new"), e), lambda x, t, dflt, d: Call("vec_get", x, Int(0))),
    _f("ref", TRef, lambda e, t, d: Call("ref", e), lambda x, t, dflt, d: Call("ref_get", x)),
    _f("tuple", lambda t: TTuple(t, INT32), lambda e, t, d: Tuple(e, Int(1)), lambda x, t, dflt, d: Proj(x, 0)),
    _f("array", lambda t: TArray(2, t), lambda e, t, d: Array(e, e), lambda x, t, dflt, d: Call("array_get", x, Int(1))),
    _f("fnres", lambda t: TFn([], t), lambda e, t, d: Lam([], e), lambda x, t, dflt, d: CallV(x)),
    _f("fnarg", lambda t: TFn([t], t), lambda e, t, d: Lam([(f"q{d}", t)], e), lambda x, t, dflt, d: CallV(x, dflt)),
    _f("opt", lambda t: TAdt("Opt", t), lambda e, t, d: Ctor(TAdt("Opt", t), "Some_", e),
       lambda x, t, dflt, d: Match(x, [(PCtor("None_"), dflt), (PCtor("Some_", PVar(f"v{d}")), Var(f"v{d}"))])),
    _f("box", lambda t: TAdt("Box", t), lambda e, t, d: Struct(TAdt("Box", t), [("v", e)]), lambda x, t, dflt, d: Field(x, "v")),
]


def path_ty(path, base):
    t = base
    for f in reversed(path):
        t = f["ty"](t)
    return t


def path_cons(path, e, base, d0=0):
    for i in reversed(range(len(path))):
        e = path[i]["cons"](e, path_ty(path[i + 1:], base), d0 + i)
    return e


def path_elim(path, x, selfexpr, base):
    """statements taking x : F1[F2[..base]] apart one former at a time, each intermediate result bound by an annotated let
    (goml's inference wants the type of the operand of a projection / field read to be known at that point), and the
    expression of type base they end in"""
    stmts = []
    for i, f in enumerate(path):
        inner = path[i + 1:]
        stmts.append(Let(f"e{i}", f["elim"](x, path_ty(inner, base), path_cons(inner, selfexpr, base, d0=i + 1), i), ty=path_ty(inner, base)))
        x = Var(f"e{i}")
    return stmts, x


SELF_KINDS = ["inherent-struct", "inherent-enum", "inherent-generic-struct", "trait-struct", "trait-int32"]


# A lambda that flows into a position declared with a function type is emitted as its closure_env_* struct (known open
# defect of goml: C02-closure-value-where-func-type-expected / C03-closure-environment-struct-..), so the paths through the
# two function formers are kept out of the families shared with C01 / C02 and are generated for C03 only
# (self_programs_c03_only, used by c03.py).
FN_FORMERS = [f for f in FORMERS if f["name"] in ("fnres", "fnarg")]
DATA_FORMERS = [f for f in FORMERS if f["name"] not in ("fnres", "fnarg")]


def self_paths(tier, kind_index):
    fs = DATA_FORMERS
    one = [[f] for f in fs]
    n = len(fs)
    if tier == "quick":
        # every former once outside and once inside; which pairs depends on the kind so that the kinds together cover more
        two = [[fs[i], fs[(i + 1 + kind_index) % n]] for i in range(n)]
        three = []
    else:
        two = [[a, b] for a in fs for b in fs]
        three = [[fs[i], fs[(i + 2 + kind_index) % n], fs[(i + 3 + 2 * kind_index) % n]] for i in range(n)]
    return {"depth1": [[]] + one, "depth2": two, "depth3": three}


def self_fn_paths(tier, kind_index):
    """paths with at least one function type in them"""
    n = len(FORMERS)
    out = [[f] for f in FN_FORMERS]
    if tier == "quick":
        for i in range(n):
            out.append([FORMERS[i], FN_FORMERS[(i + kind_index) % 2]])
            out.append([FN_FORMERS[(i + kind_index + 1) % 2], FORMERS[(i + kind_index) % n]])
    else:
        out += [[a, b] for a in FORMERS for b in FORMERS if a in FN_FORMERS or b in FN_FORMERS]
        out += [[FORMERS[i], FN_FORMERS[(i + kind_index) % 2], FORMERS[(i + 3 + kind_index) % n]] for i in range(n)]
        out += [[FN_FORMERS[(i + kind_index) % 2], FORMERS[i], FN_FORMERS[(i + kind_index + 1) % 2]] for i in range(n)]
    seen, uniq = set(), []
    for pa in out:
        k = tuple(f["name"] for f in pa)
        if k not in seen:
            seen.add(k); uniq.append(pa)
    return uniq


def self_program(kind, group, paths, single=False):
    """one program with the mk_/tk_ methods of every path in `paths`; single: the program is about one path, named by group"""
    p = Program("c03_self_" + kind.replace("-", "_") + "_" + group.replace("-", "_").replace(".", "_"))
    decls(p)
    p.struct("Node", [("id", INT32)])
    p.enum("Col", [("Red", []), ("Green", [INT32])])
    p.struct("Wrap", [("n", INT32), ("v", TT)], gens=["T"])
    gens, targs = [], []
    if kind in ("inherent-struct", "trait-struct"):
        conc = inst = TAdt("Node")
        base = Struct(conc, [("id", Int(7))])
        to_int = lambda e: Field(e, "id")
    elif kind == "inherent-enum":
        conc = inst = TAdt("Col")
        base = Ctor(conc, "Green", Int(7))
        to_int = lambda e: Match(e, [(PCtor("Red"), Int(0)), (PCtor("Green", PVar("g_")), Var("g_"))])
    elif kind == "inherent-generic-struct":
        conc, inst = TAdt("Wrap", TT), TAdt("Wrap", STRING)
        gens, targs = ["T"], [STRING]
        base = Struct(inst, [("n", Int(7)), ("v", Str("w"))])
        to_int = lambda e: Field(e, "n")
    else:
        conc = inst = INT32
        base = Int(7)
        to_int = lambda e: e
    methods, tmethods, stmts, fn_idents = [], [], [Let("a", base, ty=inst)], {}
    trait = "Shape" if kind.startswith("trait") else None
    for pa in paths:
        label = ".".join(f["name"] for f in pa) or "whole"
        mk, tk = "mk_" + label.replace(".", "_"), "tk_" + label.replace(".", "_")
        fn_idents[mk] = ("" if single else label + ":") + "result"
        fn_idents[tk] = ("" if single else label + ":") + "parameter"
        sig_t, body_t = path_ty(pa, SELF), path_ty(pa, conc)
        methods.append((mk, [("self", SELF)], sig_t, path_cons(pa, Var("self"), conc)))
        est, last = path_elim(pa, Var("x"), Var("self"), conc)
        methods.append((tk, [("self", SELF), ("x", sig_t)], INT32, Block(est, to_int(last)) if est else to_int(last)))
        tmethods += [(mk, [], sig_t), (tk, [sig_t], INT32)]
        w = "w_" + label.replace(".", "_")
        if trait:
            c1 = TCall(trait, mk, Var("a"))       # (goml has no method-call syntax for a trait method on a concrete receiver)
            c2 = TCall(trait, tk, Var("a"), Var(w))
        else:
            key = "inherent#" + tykey(conc).lstrip("%") + "#"
            c1 = Call(key + mk, Var("a"), targs=targs); c1["form"] = "method"
            c2 = Call(key + tk, Var("a"), Var(w), targs=targs); c2["form"] = "method"
        stmts += [Let(w, c1, ty=path_ty(pa, inst)), println(show_int(c2))]
    if trait:
        p.trait(trait, tmethods)
    p.impl(trait, conc, methods, gens=gens)
    p.fn("main", [], UNIT, Block(stmts, Unit))
    return {"prog": p, "family": "c03", "ident": f"c03:self-under-type-former:{kind}:{group}", "fn_idents": fn_idents}


def self_programs(tier):
    out = []
    for ki, kind in enumerate(SELF_KINDS):
        groups = self_paths(tier, ki)
        if tier == "quick":
            for g in ("depth1", "depth2"):
                out.append(self_program(kind, g, groups[g]))
        else:
            out.append(self_program(kind, "depth1", groups["depth1"]))
            for f in DATA_FORMERS:
                out.append(self_program(kind, "depth2-" + f["name"], [pa for pa in groups["depth2"] if pa[0] is f]))
            out.append(self_program(kind, "depth3", groups["depth3"]))
    return out


def self_programs_c03_only(tier):
    """one small program per path: a path on which a later stage of the compiler gives up does not hide the others"""
    out = []
    for ki, kind in enumerate(SELF_KINDS):
        for pa in self_fn_paths(tier, ki):
            out.append(self_program(kind, ".".join(f["name"] for f in pa), [pa], single=True))
    return out


# ================================================================ type-parameter NAMES of a generic struct reused by the function around it
# `struct Duo[A, B] { first: A, second: B }` used inside `fn f[B, A](p: Duo[B, A])`, `fn f[B](p: Duo[B, int32])`, `fn f[T, A](p: Duo[A, T])`:
# the function's own type parameters carry the names of the struct's parameters, in another order or only some of them,
# and the struct is applied to them out of position.  Instantiating a field's declared type must substitute the struct's
# parameters simultaneously (the arguments are types of the *function's* scope and are not substituted again).  For every
# such (parameter list, argument list) each use of the struct's fields - read, struct pattern in match, struct pattern in
# let, struct literal, read inside a generic impl - is generated once with the right result annotation (well-typed: must
# yield consistent IR, packed into one runnable program per parameter list, which C01/C02 also execute) and once per wrong
# annotation (another type parameter of the function or another concrete type: ill-typed by construction because type
# parameters are rigid; one program each; must be rejected, and if accepted its IR goes through the judgment as well).
NAME_VALUES = {"int32": (INT32, Int(4)), "string": (STRING, Str("s")), "bool": (BOOL, Bool(True)), "int64": (INT64, Int(9, "int64", suffix=True))}
NAME_INST = [STRING, BOOL, INT64]        # the function's 1st / 2nd / 3rd type parameter in main
FIELD_NAMES = ["first", "second", "third"]


def _show(t, e):
    return {"int32": lambda: show_int(e), "int64": lambda: show_int(e, "int64"), "string": lambda: e, "bool": lambda: Call("bool_to_string", e)}[t["t"]]()


def _tlabel(t):
    return t["n"] if t["t"] in ("param", "adt") and not t.get("as") else tystr(t).replace(" ", "")


def _sub(t, m):
    if t["t"] == "param":
        return m.get(t["n"], t)
    if t["t"] == "adt":
        return TAdt(t["n"], *[_sub(x, m) for x in t["as"]])
    return t


def name_shapes(tier):
    """(struct name, struct parameters, function parameter lists)"""
    two = [["A", "B"], ["B", "A"], ["A"], ["B"], ["T", "A"], ["B", "T"], ["T", "U"]]
    if tier == "quick":
        return [("Duo", ["A", "B"], two, [INT32])]
    return [("Duo", ["A", "B"], two + [["A", "T"], ["T", "B"]], [INT32, STRING]),
            ("Trio", ["A", "B", "C"], [["B", "C", "A"], ["C", "A", "B"], ["A", "C", "B"], ["C", "B"], ["B", "T", "A"], ["C"]], [INT32])]


def _assignments(gens, nparams, concrete):
    import itertools
    cands = [TParam(g) for g in gens] + concrete
    for sig in itertools.product(cands, repeat=nparams):
        if any(t["t"] == "param" for t in sig):
            yield list(sig)


def _wrong(t, gens):
    return [TParam(g) for g in gens if TParam(g) != t] + [INT32 if t != INT32 else STRING]


def _name_fn(p, sname, gens, sig, op, i, ret, fname):
    """add one function (or one generic impl with one method) using Duo[sig] inside the scope of `gens`; returns (statements
    of main that call it, declared result type)"""
    ST = TAdt(sname, *sig)
    fields = FIELD_NAMES[:len(sig)]
    wit = [("w_" + g, TParam(g)) for g in gens if not any(t == TParam(g) for t in sig)]
    inst = {g: NAME_INST[k] for k, g in enumerate(gens)}
    targs = [inst[g] for g in gens]
    isig = [_sub(t, inst) for t in sig]
    val = lambda t: NAME_VALUES[t["t"]][1]
    wargs = [val(inst[g]) for g, _ in [(w[0][2:], 0) for w in wit]]
    pv = "p_" + fname
    mk_p = Let(pv, Struct(TAdt(sname, *isig), [(f, val(t)) for f, t in zip(fields, isig)]), ty=TAdt(sname, *isig))
    binds = PStruct(sname, [(f, PVar(f"m{k}")) for k, f in enumerate(fields)])
    if op == "lit":
        right = ST
        ret = ret or right
        p.fn(fname, [(f"x{k}", t) for k, t in enumerate(sig)] + wit, ret, Struct(ST, [(f, Var(f"x{k}")) for k, f in enumerate(fields)]), gens=gens)
        call = Call(fname, *([val(t) for t in isig] + wargs), targs=targs)
        iret = _sub(ret, inst)
        return [Let("r_" + fname, call, ty=iret), println(_show(iret["as"][i], Field(Var("r_" + fname), fields[i])))], ret
    ret = ret or sig[i]
    iret = _sub(ret, inst)
    if op == "meth":
        key = "inherent#" + tykey(ST).lstrip("%") + "#"
        p.impl(None, ST, [(fname, [("self", ST)] , ret, Field(Var("self"), fields[i]))], gens=gens)
        call = Call(key + fname, Var(pv), targs=targs); call["form"] = "method"
    else:
        body = {"read": lambda: Field(Var("p"), fields[i]),
                "match": lambda: Match(Var("p"), [(binds, Var(f"m{i}"))]),
                "let": lambda: Block([Let(binds, Var("p"))], Var(f"m{i}"))}[op]()
        p.fn(fname, [("p", ST)] + wit, ret, body, gens=gens)
        call = Call(fname, *([Var(pv)] + wargs), targs=targs)
    return [mk_p, Let("r_" + fname, call, ty=iret), println(_show(iret, Var("r_" + fname)))], ret


def names_cases(tier):
    out = []
    for sname, sparams, glists, concrete in name_shapes(tier):
        fields = FIELD_NAMES[:len(sparams)]

        def fresh(name):
            p = Program(name)
            p.struct(sname, [(f, TParam(a)) for f, a in zip(fields, sparams)], gens=sparams)
            return p
        for gens in glists:
            glabel = ".".join(gens)
            sigs = list(_assignments(gens, len(sparams), concrete))
            nparts = (len(sigs) + 11) // 12            # at most 12 argument lists (x 4 uses x fields) per runnable program
            packed = None
            for si, sig in enumerate(sigs):
                if si % 12 == 0:
                    part = f"_part{si // 12}" if nparts > 1 else ""
                    packed = fresh(f"c03_names_{sname}_{'_'.join(gens)}{part}")
                    pstmts, fn_idents = [], {}
                    out.append({"prog": packed, "family": "c03", "ident": f"c03:type-parameter-names:{sname}:{glabel}{part.replace('_', ':')}", "welltyped": True,
                                "runnable": True, "fn_idents": fn_idents, "main_stmts": pstmts})
                slabel = ".".join(_tlabel(t) for t in sig)
                sid = "_".join(_tlabel(t) for t in sig)
                sites = [(op, i) for op in ("read", "match", "let", "lit") for i in range(len(sig))]
                all_used = all(any(t == TParam(g) for t in sig) for g in gens)
                for op, i in sites:
                    fname = f"{op}{i}_{sid}"
                    st, _ = _name_fn(packed, sname, gens, sig, op, i, None, fname)
                    pstmts += st
                    fn_idents[fname] = f"{slabel}:{op}-{fields[i]}"
                if all_used:
                    sites = sites + [("meth", i) for i in range(len(sig))]
                    # a generic impl whose parameters reuse the names: a program of its own (one impl block per type)
                    q = fresh(f"c03_names_{sname}_{'_'.join(gens)}_impl_{sid}")
                    qst = []
                    st, _ = _name_fn(q, sname, gens, sig, "meth", 0, None, "get0")
                    qst += st
                    q.impls[-1] = (None, q.impls[-1][1], [(f"get{i}", [("self", TAdt(sname, *sig))], sig[i], Field(Var("self"), fields[i])) for i in range(len(sig))], list(gens))
                    for i in range(1, len(sig)):
                        key = "inherent#" + tykey(TAdt(sname, *sig)).lstrip("%") + "#"
                        inst = {g: NAME_INST[k] for k, g in enumerate(gens)}
                        c = Call(key + f"get{i}", Var("p_get0"), targs=[inst[g] for g in gens]); c["form"] = "method"
                        qst.append(println(_show(_sub(sig[i], inst), c)))
                    q.fn("main", [], UNIT, Block(qst, Unit))
                    out.append({"prog": q, "family": "c03-names", "ident": f"c03:type-parameter-names:{sname}:{glabel}:{slabel}:impl", "welltyped": True,
                                "fn_idents": {f"get{i}": f"meth-{fields[i]}" for i in range(len(sig))}})
                # ---- the ill-typed variants: one wrong annotation per program
                for op, i in sites:
                    right = sig[i]
                    for k, w in enumerate(_wrong(right, gens)):
                        if tier == "quick" and op != "read" and k != (i + len(sid)) % len(_wrong(right, gens)):
                            continue            # quick: every wrong annotation for reads, one (varying) for the other uses
                        ret = w if op != "lit" else TAdt(sname, *[w if j == i else t for j, t in enumerate(sig)])
                        q = fresh(f"c03_names_{sname}_{'_'.join(gens)}_{op}{i}_{sid}_as_{_tlabel(w)}")
                        st, _ = _name_fn(q, sname, gens, sig, op, i, ret, "f")
                        q.fn("main", [], UNIT, Block(st, Unit))
                        out.append({"prog": q, "family": "c03-names", "welltyped": False,
                                    "ident": f"c03:type-parameter-names:{sname}:{glabel}:{slabel}:{op}-{fields[i]}:annotated-{_tlabel(w)}-is-{_tlabel(right)}"})
    for c in out:
        if "main_stmts" in c:
            c["prog"].fn("main", [], UNIT, Block(c.pop("main_stmts"), Unit))
    return out
