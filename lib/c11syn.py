"""C11, statement / pattern / compound-expression grammar: spec/Syntax.tla's trees, rendered with only the necessary
parentheses by the specification, parsed and lowered by the real front end; the ast::File expression must be the tree.

The leaves of the specification's trees are anonymous; here the k-th variable token becomes v<k>, the k-th integer token a
distinct number, the k-th binder b<k>, so that swapped or dropped operands show."""
import json
from common import *


def join_tokens(toks, style, rnd):
    if style == "space":
        return " ".join(toks)
    if style == "tight":
        s = ""
        for i, t in enumerate(toks):
            if i and ((s[-1].isalnum() or s[-1] in '_"') and (t[0].isalnum() or t[0] in '_"') or (s[-1] == "|" and t[0] == "|") or t[0] == "#"
                      or (s[-1] == "-" and t[0] == "-" and False)):
                s += " "
            s += t
        return s
    parts = []
    for t in toks:
        parts.append(t)
        parts.append(rnd.choice([" ", "\n", "  ", "\t", " // c\n", "\n\n"]))
    return "".join(parts)


class Namer:
    def __init__(self):
        self.v = self.n = self.x = 0

    def var(self):
        self.v += 1
        return f"v{self.v}"

    def num(self):
        self.n += 1
        return str(10 + self.n)

    def binder(self):
        self.x += 1
        return f"b{self.x}"


def name_tokens(toks):
    nm = Namer()
    out = []
    for t in toks:
        if t == "v":
            out.append(nm.var())
        elif t == "n":
            out.append(nm.num())
        elif t == "x":
            out.append(nm.binder())
        else:
            out.append(t)
    return out, nm


def pat_ast(p, nm):
    k = p["k"]
    if k == "pvar":
        return {"k": "pvar", "n": nm.binder()}
    if k == "pwild":
        return {"k": "pwild"}
    if k == "pint":
        return {"k": "pint", "ty": "", "v": nm.num()}
    if k == "pbool":
        return {"k": "pbool", "v": True}
    if k == "pstr":
        return {"k": "pstr", "bytes": [115]}
    if k == "punit":
        return {"k": "punit"}
    if k == "ptuple":
        return {"k": "ptuple", "ps": [pat_ast(q, nm) for q in p["ps"]]}
    if k == "pcon":
        return {"k": "pcon", "p": "E::C" if p["q"] else "C", "as": [pat_ast(q, nm) for q in p["as"]]}
    if k == "pstruct":
        fs = []
        for f in p["fs"]:
            fs.append({"f": f["f"], "p": {"k": "pvar", "n": f["f"]} if f["sh"] else pat_ast(f["p"], nm)})
        return {"k": "pstruct", "p": "S", "fs": fs}
    raise ValueError(k)


def body_ast(b, nm):
    if b["k"] != "block":
        return expr_ast(b, nm)
    es = []
    for s in b["ss"]:
        if s["k"] == "let":
            p = pat_ast(s["p"], nm)
            es.append({"k": "let", "pt": p, "annt": {"k": "con", "n": "int32"} if s["ann"] else None, "e": expr_ast(s["e"], nm)})
        else:
            es.append(expr_ast(s["e"], nm))
    es.append({"k": "unit"} if b["tail"]["k"] == "none" else expr_ast(b["tail"], nm))
    return {"k": "block", "es": es}


def expr_ast(t, nm):
    k = t["k"]
    if k == "v":
        return {"k": "path", "p": nm.var()}
    if k == "n":
        return {"k": "int", "ty": "", "v": nm.num()}
    if k == "bin":
        l = expr_ast(t["l"], nm)
        return {"k": "bin", "op": t["op"], "l": l, "r": expr_ast(t["r"], nm)}
    if k == "un":
        return {"k": "un", "op": "-", "e": expr_ast(t["e"], nm)}
    if k == "call":
        f = expr_ast(t["f"], nm)
        return {"k": "call", "f": f, "as": [expr_ast(a, nm) for a in t["as"]]}
    if k == "field":
        return {"k": "field", "e": expr_ast(t["e"], nm), "f": "f"}
    if k in ("tuple", "array"):
        return {"k": k, "es": [expr_ast(a, nm) for a in t["es"]]}
    if k == "struct":
        fs = []
        for f in t["fs"]:
            fs.append({"f": f["f"], "e": {"k": "path", "p": f["f"]} if f["sh"] else expr_ast(f["e"], nm)})
        return {"k": "struct", "p": "S", "fs": fs}
    if k == "if":
        c = expr_ast(t["c"], nm)
        th = body_ast(t["th"], nm)
        return {"k": "if", "c": c, "t": th, "e": body_ast(t["el"], nm)}
    if k == "match":
        e = expr_ast(t["e"], nm)
        arms = []
        for a in t["arms"]:
            p = pat_ast(a["p"], nm)
            arms.append({"pt": p, "b": body_ast(a["b"], nm)})
        return {"k": "match", "e": e, "arms": arms}
    if k == "while":
        c = expr_ast(t["c"], nm)
        return {"k": "while", "c": c, "b": body_ast(t["b"], nm)}
    if k == "lam":
        ps = [nm.binder() for _ in t["ps"]]
        return {"k": "lam", "ps": ps, "pts": [{"k": "con", "n": "int32"} if a else None for a in t["ps"]], "b": body_ast(t["b"], nm)}
    if k == "go":
        return {"k": "go", "e": expr_ast(t["e"], nm)}
    raise ValueError(k)


def strip(x):
    """drop the representation details of the exported AST that the tree does not carry"""
    if isinstance(x, dict):
        return {k: strip(v) for k, v in x.items() if not (k == "p" and "pt" in x) and k != "ann"}
    if isinstance(x, list):
        return [strip(v) for v in x]
    return x


def kind_of(t):
    k = t["k"]
    if k == "block":
        return "block%d%s" % (len(t["ss"]), "" if t["tail"]["k"] == "none" else "+tail")
    return k


def shape(t):
    """root kind with the kinds of its children: the identity of a failure"""
    k = t["k"]
    ch = []
    for key in ("l", "r", "e", "f", "c", "th", "el", "b"):
        if key in t and isinstance(t[key], dict) and "k" in t[key]:
            ch.append(f"{key}={kind_of(t[key])}")
    if k == "match":
        ch.append("arms=" + ",".join(a["p"]["k"] + ">" + kind_of(a["b"]) for a in t["arms"]))
    if k in ("tuple", "array", "call"):
        ch.append("items=" + ",".join(kind_of(a) for a in t.get("es", t.get("as", []))))
    if k == "struct":
        ch.append("fields=" + ",".join("sh" if f["sh"] else kind_of(f["e"]) for f in t["fs"]))
    if k == "lam":
        ch.append("params=%d" % len(t["ps"]))
    return f"{k}({';'.join(ch)})"


def run(tier, rep, rnd):
    cfgs = ["Syntax_1.cfg", "Syntax_2.cfg"]
    trees = []
    for cfg in cfgs:
        r = run_tlc("MCSyntax", cfg, workers=8, xmx="8g", timeout=2400, xss="256m", seed_=11)
        if not tlc_ok(r, cfg):
            rep.violation(f"model:{cfg}:{r.violated}", {"trace": r.trace[-1:]})
        ts = r.json_prints("SYN")
        if len(ts) < 600:
            raise ToolError(f"Syntax: too few trees from {cfg}")
        rep.coverage["syntax_states"] = rep.coverage.get("syntax_states", 0) + r.distinct
        if cfg == "Syntax_2.cfg" and tier == "quick":
            rnd.shuffle(ts)
            ts = ts[:12000]
        trees += ts
    reqs, meta = [], []
    styles = ["space", "tight", "mixed"]
    for i, tr in enumerate(trees):
        toks, nm_t = name_tokens(tr["toks"])
        nm = Namer()
        want = expr_ast(tr["tree"], nm)
        if (nm.v, nm.n, nm.x) != (nm_t.v, nm_t.n, nm_t.x):
            raise ToolError("Syntax: leaf numbering of tokens and tree disagree for " + " ".join(tr["toks"]))
        for st in (styles if tier == "thorough" and i % 5 == 0 else [styles[i % 3]]):
            src = join_tokens(toks, st, rnd)
            emb = i % 3
            if emb == 0:
                text = "fn main() {\n    let _ = " + src + ";\n    ()\n}\n"
            elif emb == 1:
                text = "fn main() {\n    " + src + "\n}\n"
            else:
                text = "fn main() {\n    " + src + ";\n    let _ = 0;\n}\n"
            reqs.append({"id": len(reqs), "mode": "ast", "text": text})
            meta.append((tr, want, emb, text))
    answers = gv_parallel("parse", reqs, shards=NCPU)
    ok = 0
    for (tr, want, emb, text), a in zip(meta, answers):
        sh = shape(tr["tree"])
        if a["verdict"] != "ok":
            rep.violation(f"syntax-{a['verdict']}:{sh}", {"text": text, "answer": {k: a.get(k) for k in ("verdict", "diags", "msg", "at")}}, replay={"text": text})
            continue
        body = a["fns"]["main"]
        got = None
        if body["k"] == "block" and body["es"]:
            first = body["es"][0]
            got = first["e"] if emb == 0 and first["k"] == "let" else (first if emb != 0 else None)
        if got is None or json.dumps(strip(got), sort_keys=True) != json.dumps(want, sort_keys=True):
            rep.violation(f"syntax-tree:{sh}", {"text": text, "expected": want, "got": strip(got) if got is not None else None}, replay={"text": text})
        else:
            ok += 1
    rep.coverage["syntax_trees_in_model"] = len(trees)
    rep.coverage["syntax_trees_parsed_equal"] = ok
    for tr, want, emb, text in meta[:2]:
        rep.sample({"tokens": tr["toks"], "text": text})
    if ok < 2000:
        raise ToolError("vacuity: fewer than 2000 syntax trees compared equal")
    return ok


# ---------------------------------------------------------------- files and items: spec/Items.tla
def ty_ast(t):
    k = t["k"]
    if k == "int":
        return {"k": "con", "n": "int32"}
    if k == "tv":
        return {"k": "con", "n": "T"}
    if k == "fn":
        return {"k": "fn", "ps": [{"k": "con", "n": "int32"}], "r": {"k": "con", "n": "T"}}
    if k == "app":
        return {"k": "app", "f": {"k": "con", "n": "S"}, "as": [{"k": "con", "n": "T"}]}
    raise ValueError(k)


ATTRS = {0: [], 1: ["#[note]"], 2: ["#[note]", "#[x[y](z)]"]}


def params_ast(ps):
    return [{"n": "a" if i == 0 else "b", "t": ty_ast(t)} for i, t in enumerate(ps)]


def fn_ast(f):
    return {"k": "fn", "attrs": ATTRS[f["at"]], "name": "f", "generics": [g["g"] for g in f["gens"]],
            "bounds": [{"g": g["g"], "bs": list(g["bs"])} for g in f["gens"] if g["bs"]], "params": params_ast(f["ps"]),
            "ret": None if f["ret"]["k"] == "none" else ty_ast(f["ret"]), "body": {"k": "block", "es": [{"k": "unit"}]}}


def item_ast(it):
    k = it["k"]
    if k == "fn":
        return fn_ast(it)
    if k == "struct":
        return {"k": "struct", "attrs": ATTRS[it["at"]], "name": "S", "generics": [g["g"] for g in it["gens"]],
                "fields": [{"n": "a" if i == 0 else "b", "t": ty_ast(t)} for i, t in enumerate(it["fs"])]}
    if k == "enum":
        return {"k": "enum", "attrs": ATTRS[it["at"]], "name": "E", "generics": [g["g"] for g in it["gens"]],
                "variants": [{"n": "V" if i == 0 else "W", "ts": [ty_ast(t) for t in v["ts"]]} for i, v in enumerate(it["vs"])]}
    if k == "trait":
        return {"k": "trait", "attrs": ATTRS[it["at"]], "name": "Tr",
                "methods": [{"n": "m" if i == 0 else "n", "ps": [{"k": "con", "n": "Self"}] + [ty_ast(t) for t in m["ps"]],
                             "r": {"k": "con", "n": "unit"} if m["ret"]["k"] == "none" else ty_ast(m["ret"])} for i, m in enumerate(it["ms"])]}
    if k == "impl":
        return {"k": "impl", "attrs": [], "generics": [g["g"] for g in it["gens"]], "trait": it["tr"] or None, "for": ty_ast(it["for"]),
                "methods": [fn_ast(f) for f in it["ms"]]}
    if k == "extern-go":
        return {"k": "extern-go", "attrs": [], "pkg": "pkg", "sym": "Sym" if it["sym"] else "f", "name": "f", "explicit": it["sym"],
                "params": params_ast(it["ps"]), "ret": None if it["ret"]["k"] == "none" else ty_ast(it["ret"])}
    if k in ("extern-go-type", "extern-type"):
        return {"k": "extern-type", "attrs": [], "name": "S"}
    if k == "extern-builtin":
        return {"k": "extern-builtin", "attrs": ["#[builtin]"], "name": "f", "params": params_ast(it["ps"]),
                "ret": None if it["ret"]["k"] == "none" else ty_ast(it["ret"])}
    raise ValueError(k)


def attr_text(a):
    """the attribute itself: the recorded text carries the trivia that follows it"""
    depth = 0
    for i, c in enumerate(a):
        if c == "[":
            depth += 1
        elif c == "]":
            depth -= 1
            if depth == 0:
                return a[: i + 1]
    return a


def norm_item(x):
    if isinstance(x, dict):
        return {k: ([attr_text(a) for a in v] if k == "attrs" else norm_item(v)) for k, v in x.items()}
    if isinstance(x, list):
        return [norm_item(v) for v in x]
    return x


def item_shape(f):
    main = max(f["items"], key=lambda i: len(json.dumps(i)))
    fs = ["+".join(i["k"] for i in f["items"])]
    if main.get("at"):
        fs.append("attrs%d" % main["at"])
    if main.get("gens"):
        fs.append("generics%d" % len(main["gens"]) + ("+bounds" if any(g["bs"] for g in main["gens"]) else ""))
    if main["k"] == "impl":
        fs.append("trait=" + (main["tr"] or "none"))
        fs.append("methods%d" % len(main["ms"]))
    if f["trail"]:
        fs.append("trailing-commas")
    return ":".join(fs)


def run_items(tier, rep, rnd):
    r = run_tlc("Items", "Items.cfg", workers=6, xmx="8g", timeout=1800, xss="256m")
    if not tlc_ok(r, "Items"):
        rep.violation(f"model:Items:{r.violated}", {"trace": r.trace[-1:]})
    files = r.json_prints("ITEMS")
    if len(files) < 20000:
        raise ToolError("Items: too few files")
    rep.coverage["syntax_states"] = rep.coverage.get("syntax_states", 0) + r.distinct
    rnd.shuffle(files)
    if tier == "quick":
        files = files[:6000]
    reqs, meta = [], []
    styles = ["space", "tight", "mixed"]
    for i, f in enumerate(files):
        want = {"package": "Pk" if f["tree"]["pkg"] else None, "imports": ["Lib", "Oth"][: f["tree"]["imps"]], "items": [item_ast(it) for it in f["tree"]["items"]]}
        text = join_tokens(f["toks"], styles[i % 3], rnd) + "\n"
        reqs.append({"id": len(reqs), "mode": "ast", "text": text})
        meta.append((f, want, text))
    answers = gv_parallel("parse", reqs, shards=NCPU)
    ok = 0
    for (f, want, text), a in zip(meta, answers):
        sh = item_shape(f["tree"])
        if a["verdict"] != "ok":
            rep.violation(f"items-{a['verdict']}:{sh}", {"text": text, "answer": {k: a.get(k) for k in ("verdict", "diags", "msg", "at")}}, replay={"text": text})
            continue
        got = {"package": a.get("package") if want["package"] else None, "imports": a.get("imports"), "items": norm_item(a.get("items"))}
        if json.dumps(got, sort_keys=True) != json.dumps(want, sort_keys=True):
            rep.violation(f"items-tree:{sh}", {"text": text, "expected": want, "got": got}, replay={"text": text})
        else:
            ok += 1
    rep.coverage["item_files_in_model"] = r.distinct
    rep.coverage["item_files_parsed_equal"] = ok
    rep.sample({"tokens": meta[0][0]["toks"], "text": meta[0][2]})
    if ok < 1000:
        raise ToolError("vacuity: fewer than 1000 item files compared equal")
    return ok
