#!/usr/bin/env python3
"""Prototype parser for the Go subset emitted by goml (go_pprint.rs). Text -> JSON for TLC."""
import json, re, sys

KEYWORDS = {"break","default","func","interface","select","case","defer","go","map","struct","chan","else",
            "goto","package","switch","const","fallthrough","if","range","type","continue","for","import","return","var"}
OPS = ["<<=",">>=","&^=","...","&&","||","<-","++","--","==","!=","<=",">=",":=","+=","-=","*=","/=","<<",">>","&^",
       "+","-","*","/","%","&","|","^","<",">","=","!","(",")","[","]","{","}",",",";",".",":"]

class Tok:
    __slots__=("k","v","pos")
    def __init__(s,k,v,pos): s.k=k; s.v=v; s.pos=pos
    def __repr__(s): return f"{s.k}:{s.v!r}"

class GoSyntaxError(Exception): pass

def lex(src):
    toks=[]; i=0; n=len(src)
    def need_semi():
        if not toks: return False
        t=toks[-1]
        if t.k in ("id","int","float","str"): return True
        if t.k=="kw" and t.v in ("break","continue","fallthrough","return"): return True
        if t.k=="op" and t.v in ("++","--",")","]","}"): return True
        return False
    while i<n:
        c=src[i]
        if c=="\n":
            if need_semi(): toks.append(Tok("op",";",i))
            i+=1; continue
        if c in " \t\r": i+=1; continue
        if src.startswith("//",i):
            while i<n and src[i]!="\n": i+=1
            continue
        if c.isalpha() or c=="_":
            j=i+1
            while j<n and (src[j].isalnum() or src[j]=="_"): j+=1
            w=src[i:j]
            toks.append(Tok("kw" if w in KEYWORDS else "id",w,i)); i=j; continue
        if c.isdigit():
            j=i
            while j<n and src[j].isdigit(): j+=1
            isf=False
            if j<n and src[j]=="." and j+1<n and src[j+1].isdigit():
                isf=True; j+=1
                while j<n and src[j].isdigit(): j+=1
            if j<n and src[j] in "eE":
                k=j+1
                if k<n and src[k] in "+-": k+=1
                if k<n and src[k].isdigit():
                    isf=True; j=k
                    while j<n and src[j].isdigit(): j+=1
            toks.append(Tok("float" if isf else "int",src[i:j],i)); i=j; continue
        if c=='"':
            j=i+1; out=bytearray()
            while True:
                if j>=n or src[j]=="\n": raise GoSyntaxError(f"string literal not terminated at {i}")
                ch=src[j]
                if ch=='"': j+=1; break
                if ch=="\\":
                    j+=1
                    if j>=n: raise GoSyntaxError("bad escape")
                    e=src[j]
                    simple={"a":7,"b":8,"f":12,"n":10,"r":13,"t":9,"v":11,"\\":92,'"':34}
                    if e in simple: out.append(simple[e]); j+=1
                    elif e=="x":
                        h=src[j+1:j+3]
                        if not re.fullmatch(r"[0-9a-fA-F]{2}",h): raise GoSyntaxError("bad \\x escape")
                        out.append(int(h,16)); j+=3
                    elif e=="u":
                        h=src[j+1:j+5]
                        if not re.fullmatch(r"[0-9a-fA-F]{4}",h): raise GoSyntaxError("bad \\u escape")
                        out+=chr(int(h,16)).encode("utf-8"); j+=5
                    elif e in "01234567":
                        h=src[j:j+3]
                        if not re.fullmatch(r"[0-7]{3}",h): raise GoSyntaxError("bad octal escape")
                        out.append(int(h,8)&255); j+=3
                    else: raise GoSyntaxError(f"unknown escape sequence \\{e} at {j}")
                else:
                    out+=ch.encode("utf-8"); j+=1
            toks.append(Tok("str",list(out),i)); i=j; continue
        for op in OPS:
            if src.startswith(op,i):
                toks.append(Tok("op",op,i)); i+=len(op); break
        else:
            raise GoSyntaxError(f"illegal character {c!r} at {i}")
    if need_semi(): toks.append(Tok("op",";",n))
    toks.append(Tok("eof","",n))
    return toks

BINPREC={"||":1,"&&":2,"==":3,"!=":3,"<":3,"<=":3,">":3,">=":3,"+":4,"-":4,"|":4,"^":4,"*":5,"/":5,"%":5,"<<":5,">>":5,"&":5,"&^":5}

class Parser:
    def __init__(s,src):
        s.t=lex(src); s.i=0; s.blocks=[]; s.nolit=0
    def peek(s): return s.t[s.i]
    def at(s,k,v=None):
        t=s.t[s.i]; return t.k==k and (v is None or t.v==v)
    def atop(s,v): return s.at("op",v)
    def next(s): t=s.t[s.i]; s.i+=1; return t
    def expect(s,k,v=None):
        if not s.at(k,v): raise GoSyntaxError(f"expected {k} {v!r}, found {s.peek()} at {s.peek().pos}")
        return s.next()
    def skip_semis(s):
        while s.atop(";"): s.next()
    # ---- file
    def file(s):
        s.expect("kw","package"); pkg=s.expect("id").v; s.skip_semis()
        imports=[]; types={}; typeorder=[]; funcs={}; funcorder=[]; methods=[]
        while s.at("kw","import"):
            s.next()
            if s.atop("("):
                s.next(); s.skip_semis()
                while not s.atop(")"):
                    alias=None
                    if s.at("id"): alias=s.next().v
                    path=bytes(s.expect("str").v).decode(); imports.append({"alias":[alias] if alias else [],"path":path}); s.skip_semis()
                s.next()
            else:
                path=bytes(s.expect("str").v).decode(); imports.append({"alias":[],"path":path})
            s.skip_semis()
        while not s.at("eof"):
            if s.at("kw","type"):
                s.next(); name=s.expect("id").v
                if name in types: raise GoSyntaxError(f"{name} redeclared")
                if s.atop("="):
                    s.next(); types[name]={"k":"alias","t":s.type_()}
                elif s.at("kw","struct"):
                    s.next(); s.expect("op","{"); s.skip_semis(); fields=[]
                    while not s.atop("}"):
                        fn=s.expect("id").v; ft=s.type_(); fields.append({"n":fn,"t":ft}); s.skip_semis()
                    s.next(); types[name]={"k":"struct","fields":fields}
                elif s.at("kw","interface"):
                    s.next(); s.expect("op","{"); s.skip_semis(); ms=[]
                    while not s.atop("}"):
                        mn=s.expect("id").v; ps,_=s.params(); r=[]
                        if not s.atop(";") and not s.atop("}"): r=[s.type_()]
                        ms.append({"n":mn,"ps":ps,"r":r}); s.skip_semis()
                    s.next(); types[name]={"k":"iface","methods":ms}
                else: raise GoSyntaxError("unsupported type declaration")
                typeorder.append(name)
            elif s.at("kw","func"):
                s.next(); recv=[]
                if s.atop("("):
                    s.next(); rn=s.expect("id").v; rt=s.type_(); s.expect("op",")"); recv=[{"n":rn,"t":rt}]
                name=s.expect("id").v; ps,names=s.params(); ret=[]
                if not s.atop("{"): ret=[s.type_()]
                body=s.block()
                f={"name":name,"params":ps,"ret":ret,"body":body}
                if recv: f["recv"]=recv[0]; methods.append(f)
                else:
                    if name in funcs: raise GoSyntaxError(f"{name} redeclared in this block")
                    funcs[name]=f; funcorder.append(name)
            else: raise GoSyntaxError(f"unexpected {s.peek()} at top level")
            s.skip_semis()
        return {"pkg":pkg,"imports":imports,"types":types,"typeorder":typeorder,"funcs":funcs,"funcorder":funcorder,
                "methods":methods,"blocks":s.blocks}
    def params(s):
        s.expect("op","("); ps=[]; names=[]
        while not s.atop(")"):
            n=s.expect("id").v; t=s.type_(); ps.append({"n":n,"t":t}); names.append(n)
            if s.atop(","): s.next()
        s.next(); return ps,names
    def type_(s):
        if s.atop("*"): s.next(); return {"k":"ptr","e":s.type_()}
        if s.atop("["):
            s.next()
            if s.atop("]"): s.next(); return {"k":"slice","e":s.type_()}
            n=int(s.expect("int").v); s.expect("op","]"); return {"k":"array","n":n,"e":s.type_()}
        if s.at("kw","struct"):
            s.next(); s.expect("op","{"); s.expect("op","}"); return {"k":"unit"}
        if s.at("kw","func"):
            s.next(); s.expect("op","("); ps=[]
            while not s.atop(")"):
                ps.append(s.type_())
                if s.atop(","): s.next()
            s.next(); r=[]
            if s.starts_type(): r=[s.type_()]
            return {"k":"func","ps":ps,"r":r}
        n=s.expect("id").v
        if s.atop(".") :
            s.next(); m=s.expect("id").v; return {"k":"named","n":n+"."+m}
        return {"k":"named","n":n}
    def starts_type(s):
        return s.at("id") or s.atop("*") or s.atop("[") or s.at("kw","struct") or s.at("kw","func")
    # ---- statements
    def block(s):
        s.expect("op","{"); bid=len(s.blocks); s.blocks.append(None); stmts=[]
        s.skip_semis()
        while not s.atop("}"):
            stmts.append(s.stmt()); s.skip_semis()
        s.next(); s.blocks[bid]=stmts; return bid
    def case_body(s):
        bid=len(s.blocks); s.blocks.append(None); stmts=[]; s.skip_semis()
        while not (s.at("kw","case") or s.at("kw","default") or s.atop("}")):
            stmts.append(s.stmt()); s.skip_semis()
        s.blocks[bid]=stmts; return bid
    def stmt(s):
        if s.at("kw","var"):
            s.next(); n=s.expect("id").v; t=s.type_(); init=[]
            if s.atop("="): s.next(); init=[s.expr()]
            return {"k":"var","n":n,"t":t,"init":init}
        if s.at("kw","return"):
            s.next(); e=[]
            if not s.atop(";") and not s.atop("}"): e=[s.expr()]
            return {"k":"return","e":e}
        if s.at("kw","break"): s.next(); return {"k":"break"}
        if s.at("kw","go"): s.next(); return {"k":"go","e":s.expr()}
        if s.at("kw","for"):
            s.next(); return {"k":"for","body":s.block()}
        if s.at("kw","if"):
            s.next(); s.nolit+=1; c=s.expr(); s.nolit-=1; th=s.block(); el=[]
            if s.at("kw","else"): s.next(); el=[s.block()]
            return {"k":"if","c":c,"then":th,"else":el}
        if s.at("kw","switch"):
            s.next(); bind=[]
            if s.at("id") and s.t[s.i+1].k=="op" and s.t[s.i+1].v==":=": bind=[s.next().v]; s.next()
            s.nolit+=1; e=s.expr(typeswitch=True); s.nolit-=1
            s.expect("op","{"); s.skip_semis(); cases=[]; default=[]
            istype = e.get("k")=="typeswitch"
            while not s.atop("}"):
                if s.at("kw","case"):
                    s.next()
                    v = s.type_() if istype else s.expr()
                    s.expect("op",":"); cases.append({"v":v,"b":s.case_body()})
                else:
                    s.expect("kw","default"); s.expect("op",":"); default=[s.case_body()]
            s.next()
            if istype: return {"k":"tswitch","bind":bind,"e":e["e"],"cases":cases,"default":default}
            if bind: raise GoSyntaxError("binding in expression switch")
            return {"k":"switch","e":e,"cases":cases,"default":default}
        # simple statement
        if s.atop("*"):
            # pointer assign  *p = v
            save=s.i; s.next(); p=s.unary();
            if s.atop("="): s.next(); return {"k":"passign","p":p,"v":s.expr()}
            s.i=save
        e=s.expr()
        if s.atop("="):
            s.next(); v=s.expr()
            if e["k"]=="id": return {"k":"assign","n":e["n"],"v":v}
            if e["k"]=="sel": return {"k":"fassign","o":e["e"],"f":e["f"],"v":v}
            if e["k"]=="idx": return {"k":"iassign","a":e["e"],"i":e["i"],"v":v}
            raise GoSyntaxError("cannot assign")
        return {"k":"expr","e":e}
    # ---- expressions
    def expr(s,typeswitch=False,prec=1):
        l=s.unary(typeswitch)
        while s.at("op") and s.peek().v in BINPREC and BINPREC[s.peek().v]>=prec:
            op=s.next().v; r=s.expr(prec=BINPREC[op]+1); l={"k":"bin","op":op,"l":l,"r":r}
        return l
    def unary(s,typeswitch=False):
        if s.at("op") and s.peek().v in ("-","!","&","*","+","^"):
            op=s.next().v; return {"k":"un","op":op,"e":s.unary()}
        return s.primary(typeswitch)
    def primary(s,typeswitch=False):
        t=s.peek()
        if t.k=="int": s.next(); x={"k":"int","v":t.v}
        elif t.k=="float": s.next(); x={"k":"float","v":t.v}
        elif t.k=="str": s.next(); x={"k":"str","v":t.v}
        elif t.k=="op" and t.v=="(":
            s.next(); s.nolit,sv=0,s.nolit; x=s.expr(); s.nolit=sv; s.expect("op",")"); x={"k":"paren","e":x}
        elif t.k=="op" and t.v=="[":
            ty=s.type_(); x=s.complit(ty)
        elif t.k=="kw" and t.v=="struct":
            ty=s.type_(); s.expect("op","{"); s.expect("op","}"); x={"k":"unitv"}
        elif t.k=="id":
            s.next()
            if t.v in ("true","false"): x={"k":"bool","v":t.v=="true"}
            elif t.v=="nil": x={"k":"nil"}
            else: x={"k":"id","n":t.v}
        else: raise GoSyntaxError(f"unexpected {t} at {t.pos}")
        while True:
            if s.atop("."):
                s.next()
                if s.atop("("):
                    s.next()
                    if s.at("kw","type"):
                        if not typeswitch: raise GoSyntaxError("use of .(type) outside type switch")
                        s.next(); s.expect("op",")"); return {"k":"typeswitch","e":x}
                    ty=s.type_(); s.expect("op",")"); x={"k":"assert","e":x,"t":ty}
                else:
                    f=s.expect("id").v; x={"k":"sel","e":x,"f":f}
            elif s.atop("("):
                s.next(); s.nolit,sv=0,s.nolit; args=[]
                while not s.atop(")"):
                    args.append(s.expr())
                    if s.atop(","): s.next()
                s.next(); s.nolit=sv; x={"k":"call","f":x,"a":args}
            elif s.atop("["):
                s.next(); s.nolit,sv=0,s.nolit; i=s.expr(); s.nolit=sv; s.expect("op","]"); x={"k":"idx","e":x,"i":i}
            elif s.atop("{") and s.nolit==0 and x["k"] in ("id","sel"):
                ty={"k":"named","n":x["n"]} if x["k"]=="id" else {"k":"named","n":x["e"]["n"]+"."+x["f"]}
                x=s.complit(ty)
            else: break
        return x
    def complit(s,ty):
        s.expect("op","{"); s.nolit,sv=0,s.nolit; s.skip_semis()
        if ty["k"] in ("array","slice"):
            es=[]
            while not s.atop("}"):
                es.append(s.expr())
                if s.atop(","): s.next()
                s.skip_semis()
            s.next(); s.nolit=sv; return {"k":"arrlit","t":ty,"es":es}
        fs=[]
        while not s.atop("}"):
            n=s.expect("id").v; s.expect("op",":"); e=s.expr(); fs.append({"n":n,"e":e})
            if s.atop(","): s.next()
            s.skip_semis()
        s.next(); s.nolit=sv; return {"k":"lit","t":ty,"fs":fs}

def _shadow(x, names):
    if isinstance(x, dict):
        if x.get("k") == "nil" and "nil" in names:
            return {"k": "id", "n": "nil"}
        if x.get("k") == "bool" and ("true" if x.get("v") else "false") in names:
            return {"k": "id", "n": "true" if x["v"] else "false"}
        return {k: _shadow(v, names) for k, v in x.items()}
    if isinstance(x, list):
        return [_shadow(v, names) for v in x]
    return x


def parse(src):
    ast = Parser(src).file()
    names = (set(ast["funcs"]) | set(ast["types"])) & {"nil", "true", "false"}
    if names:
        ast["blocks"] = _shadow(ast["blocks"], names)
    return ast

if __name__=="__main__":
    for p in sys.argv[1:]:
        try:
            ast=parse(open(p).read()); print(json.dumps({"path":p,"ok":True,"ast":ast}))
        except GoSyntaxError as e:
            print(json.dumps({"path":p,"ok":False,"err":str(e)}))
