"""Pass-level static relations evaluated by TLC on what the real passes produced for a set of programs:
   Lift -> ANF keeps the effect skeleton of every function (IREffects.tla), dead-code elimination of the Go keeps it too (Dce.tla)."""
from common import *
import dcecheck, ordercheck


def validate(cases, rep, name, answers=None):
    """cases: [{id, path, ident?}] (accepted or not; rejected programs are skipped); answers: the `gv compile` answers with
    ir_json of the same cases when the caller already has them.  Returns coverage stats."""
    ident = {str(c["id"]): c.get("ident", str(c["id"])) for c in cases}
    dst = dcecheck.validate(cases, rep, name)
    if answers is None:
        answers = gv_robust("compile", [{"id": str(c["id"]), "path": c["path"], "ir_json": True} for c in cases], extra=["--limit-ms", "60000"])
    ost = ordercheck.validate([(a["id"], a["ir"]) for a in answers if a.get("verdict") == "ok" and "ir" in a], rep, "order-" + name, lambda i: ident.get(i, i))
    return {"dce": dst, "anf_order": ost}
