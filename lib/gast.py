"""GAST: typed abstract syntax of goml programs shared by the generators, the renderer (-> goml text for the real
compiler) and GomlSem.tla (-> meaning).  Expressions are dicts with key "k"; types are dicts with key "t".

The renderer prints fully parenthesised operators so that C01/C06-C10 do not depend on C11 (precedence)."""
import json

# ---------------------------------------------------------------- types
INT_TYPES = ["int8", "int16", "int32", "int64", "uint8", "uint16", "uint32", "uint64"]


def T(name):
    return {"t": name}


INT32, INT8, INT64, UINT8, BOOL, STRING, UNIT = T("int32"), T("int8"), T("int64"), T("uint8"), T("bool"), T("string"), T("unit")
F32, F64 = T("float32"), T("float64")


def TTuple(*ts):
    return {"t": "tuple", "ts": list(ts)}


def TAdt(n, *args):
    return {"t": "adt", "n": n, "as": list(args)}


def TVec(e):
    return {"t": "vec", "e": e}


def TRef(e):
    return {"t": "ref", "e": e}


def TArray(n, e):
    return {"t": "array", "n": n, "e": e}


def TFn(ps, r):
    return {"t": "fn", "ps": list(ps), "r": r}


def TParam(n):
    return {"t": "param", "n": n}


def TDyn(tr):
    return {"t": "dyn", "tr": tr}


def tystr(t):
    k = t["t"]
    if k == "tuple":
        return "(" + ", ".join(tystr(x) for x in t["ts"]) + ")"
    if k == "adt":
        return t["n"] + ("[" + ", ".join(tystr(x) for x in t["as"]) + "]" if t["as"] else "")
    if k == "vec":
        return "Vec[" + tystr(t["e"]) + "]"
    if k == "ref":
        return "Ref[" + tystr(t["e"]) + "]"
    if k == "array":
        return "[" + tystr(t["e"]) + "; " + str(t["n"]) + "]"
    if k == "fn":
        return "(" + ", ".join(tystr(x) for x in t["ps"]) + ") -> " + tystr(t["r"])
    if k == "param":
        return t["n"]
    if k == "dyn":
        return "dyn " + t["tr"]
    return k


def tykey(t):
    """must agree with TyKey in GomlSem.tla"""
    k = t["t"]
    if k == "adt":
        return "%" + t["n"] + ("[" + ",".join(tykey(x) for x in t["as"]) + "]" if t["as"] else "")
    if k == "tuple":
        return "(" + ",".join(tykey(x) for x in t["ts"]) + ")"
    if k == "vec":
        return "Vec[" + tykey(t["e"]) + "]"
    if k == "ref":
        return "Ref[" + tykey(t["e"]) + "]"
    if k == "param":
        return "?" + t["n"]
    if k == "dyn":
        return "dyn " + t["tr"]
    if k in ("array", "fn"):
        return "?"
    return k


# ---------------------------------------------------------------- expressions
def Int(v, ty="int32", suffix=False):
    v = int(v)
    return {"k": "int", "ty": ty, "neg": v < 0, "ds": [int(c) for c in str(abs(v))], "suffix": suffix}


def Float(num, den, ty="float64"):
    return {"k": "float", "ty": ty, "num": num, "den": den}


def Bool(b):
    return {"k": "bool", "v": bool(b)}


def Str(s, multiline=False):
    if isinstance(s, str):
        s = s.encode("utf-8")
    return {"k": "str", "v": list(s), "multiline": multiline}


Unit = {"k": "unit"}


def Var(x):
    return {"k": "var", "x": x}


def FnRef(n, targs=()):
    return {"k": "fnref", "n": n, "targs": list(targs)}


def Bin(op, l, r):
    return {"k": "bin", "op": op, "l": l, "r": r}


def Un(op, e):
    return {"k": "un", "op": op, "e": e}


def Call(f, *args, targs=()):
    return {"k": "call", "f": f, "targs": list(targs), "as": list(args)}


def CallV(f, *args):
    return {"k": "callv", "f": f, "as": list(args)}


def TCall(trait, m, *args, form="ufcs"):
    """trait method call; form: 'ufcs' = Tr::m(x, a), 'method' = x.m(a)"""
    return {"k": "tcall", "trait": trait, "m": m, "as": list(args), "form": form}


def Derived(m, e, form="method"):
    """e.to_string() / e.to_json() of a type with #[derive(..)]; form 'ufcs' renders T::m(e)"""
    return {"k": "derived", "m": m, "as": [e], "form": form}


def ToDyn(trait, e):
    return {"k": "todyn", "trait": trait, "e": e}


def Tuple(*es):
    return {"k": "tuple", "es": list(es)}


def Array(*es):
    return {"k": "array", "es": list(es)}


def Proj(e, i):
    return {"k": "proj", "e": e, "i": i}


def Struct(ty, fields):
    """fields: list of (name, expr) in *written* order"""
    return {"k": "struct", "ty": ty, "fs": [{"f": f, "e": e} for f, e in fields]}


def Field(e, f):
    return {"k": "field", "e": e, "f": f}


def Ctor(ty, variant, *args, qualified=False):
    return {"k": "ctor", "ty": ty, "variant": variant, "as": list(args), "qualified": qualified}


def Lam(params, body):
    """params: list of (name, type)"""
    return {"k": "lam", "ps": [p for p, _ in params], "pts": [t for _, t in params], "b": body}


def If(c, t, e):
    return {"k": "if", "c": c, "t": t, "e": e}


def While(c, b):
    return {"k": "while", "c": c, "b": b}


def Match(e, arms):
    """arms: list of (pattern, body)"""
    return {"k": "match", "e": e, "arms": [{"p": p, "b": b} for p, b in arms]}


def Let(p, e, ty=None):
    if isinstance(p, str):
        p = PVar(p)
    return {"k": "let", "p": p, "e": e, "ty": [ty] if ty else []}


def Do(e):
    """expression statement whose value is discarded: `let _ = e;`"""
    return {"k": "let", "p": PWild, "e": e, "ty": []}


def Stmt(e):
    """bare expression statement `e;`"""
    return {"k": "expr", "e": e}


def Block(stmts, tail=None):
    return {"k": "block", "stmts": list(stmts), "tail": [tail] if tail is not None else []}


# patterns
def PVar(x):
    return {"k": "pvar", "x": x}


PWild = {"k": "pwild"}
PUnit = {"k": "punit"}


def PInt(v, ty="int32"):
    v = int(v)
    return {"k": "pint", "ty": ty, "neg": v < 0, "ds": [int(c) for c in str(abs(v))]}


def PBool(b):
    return {"k": "pbool", "v": bool(b)}


def PStr(s):
    return {"k": "pstr", "v": list(s.encode("utf-8"))}


def PTuple(*ps):
    return {"k": "ptuple", "ps": list(ps)}


def PCtor(variant, *ps, qualified_enum=None):
    return {"k": "pctor", "variant": variant, "ps": list(ps), "q": qualified_enum or ""}


def PStruct(n, fields):
    return {"k": "pstruct", "n": n, "fs": [{"f": f, "p": p} for f, p in fields]}


def println(e):
    return Do(Call("string_println", e))


def show_int(e, ty="int32"):
    return Call(ty + "_to_string", e)


# ---------------------------------------------------------------- program
def derive_line(grp):
    """one derive attribute; the pseudo entry `//` puts a comment after it and a comment line below it (trivia, no meaning)"""
    names = [n for n in grp.split() if not n.startswith("//")]
    line = "#[derive(" + ", ".join(names) + ")]"
    styles = [n for n in grp.split() if n.startswith("//")]
    if not styles:
        return line
    # the comment's text is trivia whatever it contains: brackets, attribute-like text, quotes, parentheses
    text = {"//": ("derived", "a comment between the attribute and the declaration"),
            "//]": ("see note [1]", "payload order is [from, to]"),
            "//#": ("like #[derive(Nothing)] but not", "#[derive(ToNothing)]"),
            "//)": ("closes ) } ] early", "\"quoted\" and 'single' ( { ["),
            }[styles[0]]
    return line + f" // {text[0]}\n// {text[1]}"


class Program:
    def __init__(self, name):
        self.name = name
        self.structs = []    # (name, gens, [(field, ty)], derives)
        self.enums = []      # (name, gens, [(variant, [ty])], derives)
        self.traits = []     # (name, [(method, [param tys after Self], ret)])
        self.impls = []      # (trait or None, ty, [(mname, params[(x,ty)], ret, body)], gens)
        self.fns = []        # (name, gens[(n, [bounds])], params[(x,ty)], ret, body)
        self.header = ""     # package / import lines
        self.sem_only = []   # Programs whose functions / impls exist only for the meaning (e.g. an imported package written by hand)

    def struct(self, name, fields, gens=(), derives=()):
        self.structs.append((name, list(gens), list(fields), list(derives)))

    def enum(self, name, variants, gens=(), derives=()):
        self.enums.append((name, list(gens), list(variants), list(derives)))

    def trait(self, name, methods):
        self.traits.append((name, list(methods)))

    def impl(self, trait, ty, methods, gens=()):
        self.impls.append((trait, ty, list(methods), list(gens)))

    def fn(self, name, params, ret, body, gens=()):
        self.fns.append((name, [(g if isinstance(g, tuple) else (g, [])) for g in gens], list(params), ret, body))

    # ---- semantic record for GomlSem
    def sem_record(self, need_main=True):
        fns = {}
        impls = {"·|·": {"·": {"fn": "·", "targs": []}}}
        for name, gens, params, ret, body in self.fns:
            fns[name] = {"gens": [g for g, _ in gens], "params": [x for x, _ in params], "body": sem_expr(body)}
        for trait, ty, methods, gens in self.impls:
            for mname, params, ret, body in methods:
                if trait is None:
                    fname = f"inherent#{tykey(ty).lstrip('%')}#{mname}"
                else:
                    fname = f"impl#{trait}#{tykey(ty)}#{mname}"
                    impls.setdefault(trait + "|" + tykey(ty), {})[mname] = {"fn": fname, "targs": []}
                fns[fname] = {"gens": list(gens), "params": [x for x, _ in params], "body": sem_expr(body)}
        for other in self.sem_only:
            o = other.sem_record(need_main=False)
            fns.update(o["fns"])
            for k, v in o["impls"].items():
                impls.setdefault(k, {}).update(v)
        if need_main and "main" not in fns:
            raise ValueError("program without main")
        ftab = {"·": []}
        ntab = {"·": []}
        def nm(x):
            ntab[x] = list(x.encode("utf-8"))
        for name, gens, fields, derives in self.structs:
            ftab[name] = [f for f, _ in fields]
            nm(name)
            for f, _ in fields:
                nm(f)
        for name, gens, variants, derives in self.enums:
            nm(name)
            for v, _ in variants:
                nm(v)
        return {"name": self.name, "fns": fns, "impls": impls, "ftab": ftab, "ntab": ntab}

    # ---- goml text
    def render(self):
        L = []
        if self.header:
            L.append(self.header.rstrip("\n"))
        for name, gens, fields, derives in self.structs:
            if derives:
                for grp in " ".join(derives).split("|"):            # "|" separates stacked attributes
                    L.append(derive_line(grp))
            g = "[" + ", ".join(gens) + "]" if gens else ""
            L.append(f"struct {name}{g} {{ " + ", ".join(f"{f}: {tystr(t)}" for f, t in fields) + " }")
        for name, gens, variants, derives in self.enums:
            if derives:
                for grp in " ".join(derives).split("|"):
                    L.append(derive_line(grp))
            g = "[" + ", ".join(gens) + "]" if gens else ""
            vs = ", ".join(v + ("(" + ", ".join(tystr(t) for t in ts) + ")" if ts else "") for v, ts in variants)
            L.append(f"enum {name}{g} {{ {vs} }}")
        for name, methods in self.traits:
            L.append(f"trait {name} {{")
            for m, ps, r in methods:
                L.append(f"    fn {m}(" + ", ".join(["Self"] + [tystr(t) for t in ps]) + f") -> {tystr(r)};")
            L.append("}")
        for trait, ty, methods, gens in self.impls:
            g = "[" + ", ".join(gens) + "]" if gens else ""
            head = f"impl{g} {trait} for {tystr(ty)}" if trait else f"impl{g} {tystr(ty)}"
            L.append(head + " {")
            for m, params, r, body in methods:
                L.append(f"    fn {m}(" + ", ".join(f"{x}: {tystr(t)}" for x, t in params) + f") -> {tystr(r)} " + render_body(body, 1))
            L.append("}")
        for name, gens, params, ret, body in self.fns:
            g = ""
            if gens:
                g = "[" + ", ".join(n + (": " + " + ".join(b) if b else "") for n, b in gens) + "]"
            r = "" if (name == "main" and ret == UNIT) else f" -> {tystr(ret)}"
            L.append(f"fn {name}{g}(" + ", ".join(f"{x}: {tystr(t)}" for x, t in params) + f"){r} " + render_body(body, 0))
        return "\n".join(L) + "\n"


def sem_expr(e):
    """strip rendering-only keys; inherent method calls etc. are already plain calls"""
    if isinstance(e, dict):
        out = {}
        for k, v in e.items():
            if k in ("suffix", "qualified", "form", "pts", "q", "tyname", "multiline"):
                continue
            if k == "ty" and isinstance(v, list):     # let annotation
                continue
            out[k] = sem_expr(v)
        if e.get("k") == "pint" or e.get("k") == "int":
            out["ty"] = e["ty"]
        return out
    if isinstance(e, list):
        return [sem_expr(x) for x in e]
    return e


# ---------------------------------------------------------------- rendering of expressions
ESC = {34: '\\"', 92: "\\\\", 10: "\\n", 9: "\\t", 13: "\\r"}


ESC = {34: '\\"', 92: "\\\\", 10: "\\n", 9: "\\t", 13: "\\r", 8: "\\b", 12: "\\f"}


def render_str(bs, ind=0, multiline=False):
    b = bytes(bs)
    try:
        s = b.decode("utf-8")
    except UnicodeDecodeError:
        raise ValueError("string literal is not UTF-8")
    if multiline:
        # a multi-line string literal carries every byte of its lines verbatim; it needs at least one line feed
        if 10 not in b or 13 in b:
            raise ValueError("multi-line literal needs a line feed and no carriage return")
        pad = "    " * (ind + 2)
        return ("\n" + pad).join("\\\\" + ln for ln in s.split("\n")) + "\n" + pad
    out = []
    for ch in s:
        o = ord(ch)
        if o in ESC:
            out.append(ESC[o])
        elif o < 32:
            out.append("\\u%04x" % o)
        else:
            out.append(ch)
    return '"' + "".join(out) + '"'


def render_int(e):
    s = ("-" if e["neg"] else "") + "".join(str(d) for d in e["ds"])
    if e.get("suffix"):
        s += {"int8": "i8", "int16": "i16", "int32": "i32", "int64": "i64", "uint8": "u8", "uint16": "u16", "uint32": "u32", "uint64": "u64"}[e["ty"]]
    return s


def render_float(e):
    return _render_float(e) + {"float32": "f32", "float64": "f64"}.get(e["ty"], "") if e.get("suffix") else _render_float(e)


def _render_float(e):
    from fractions import Fraction
    f = Fraction(e["num"], e["den"])
    # dyadic => finite decimal
    n, d = f.numerator, f.denominator
    s = "-" if n < 0 else ""
    n = abs(n)
    ip = n // d
    r = n % d
    digs = []
    while r and len(digs) < 40:
        r *= 10
        digs.append(str(r // d))
        r %= d
    return s + str(ip) + "." + ("".join(digs) if digs else "0")


def render_body(body, ind):
    if body["k"] == "block":
        return render_block(body, ind)
    return "{ " + R(body, ind + 1) + " }"


def render_block(b, ind):
    I = "    " * (ind + 1)
    s = "{\n"
    for st in b["stmts"]:
        if st["k"] == "let":
            ann = ": " + tystr(st["ty"][0]) if st["ty"] else ""
            s += I + "let " + render_pat(st["p"]) + ann + " = " + R(st["e"], ind + 1) + ";\n"
        else:
            s += I + R(st["e"], ind + 1) + ";\n"
    if b["tail"]:
        s += I + R(b["tail"][0], ind + 1) + "\n"
    return s + "    " * ind + "}"


def atom(e, ind):
    """render e so that it can be followed by .field / (args)"""
    s = R(e, ind)
    if e["k"] in ("var", "fnref", "call", "callv", "tuple", "proj", "field", "struct", "unit", "tcall", "array"):
        return s
    return "(" + s + ")"


def R(e, ind=0):
    k = e["k"]
    if k == "int":
        s = render_int(e)
        return "(" + s + ")" if e["neg"] else s
    if k == "float":
        s = render_float(e)
        return "(" + s + ")" if s.startswith("-") else s
    if k == "bool":
        return "true" if e["v"] else "false"
    if k == "str":
        return render_str(e["v"], ind, multiline=e.get("multiline", False))
    if k == "unit":
        return "()"
    if k == "var":
        return e["x"]
    if k == "fnref":
        return e["n"]
    if k == "bin":
        return "(" + R(e["l"], ind) + " " + e["op"] + " " + R(e["r"], ind) + ")"
    if k == "un":
        return "(" + e["op"] + R(e["e"], ind) + ")"
    if k == "call":
        f = e["f"]
        if f.startswith("inherent#"):
            _, tk, m = f.split("#")
            tk = tk.lstrip("%")
            if e.get("form") == "method":
                return atom(e["as"][0], ind) + "." + m + "(" + ", ".join(R(a, ind) for a in e["as"][1:]) + ")"
            return tk + "::" + m + "(" + ", ".join(R(a, ind) for a in e["as"]) + ")"
        return f + "(" + ", ".join(R(a, ind) for a in e["as"]) + ")"
    if k == "tcall":
        if e.get("form") == "method":
            return atom(e["as"][0], ind) + "." + e["m"] + "(" + ", ".join(R(a, ind) for a in e["as"][1:]) + ")"
        return e["trait"] + "::" + e["m"] + "(" + ", ".join(R(a, ind) for a in e["as"]) + ")"
    if k == "derived":
        if e.get("form") == "ufcs":
            return e["tyname"] + "::" + e["m"] + "(" + R(e["as"][0], ind) + ")"
        return atom(e["as"][0], ind) + "." + e["m"] + "()"
    if k == "callv":
        return atom(e["f"], ind) + "(" + ", ".join(R(a, ind) for a in e["as"]) + ")"
    if k == "todyn":
        return R(e["e"], ind)          # coercion is implicit, driven by the annotated context
    if k == "tuple":
        return "(" + ", ".join(R(x, ind) for x in e["es"]) + ")"
    if k == "array":
        return "[" + ", ".join(R(x, ind) for x in e["es"]) + "]"
    if k == "proj":
        return atom(e["e"], ind) + "." + str(e["i"])
    if k == "struct":
        return e["ty"]["n"] + " { " + ", ".join(f["f"] + ": " + R(f["e"], ind) for f in e["fs"]) + " }"
    if k == "field":
        return atom(e["e"], ind) + "." + e["f"]
    if k == "ctor":
        head = (e["ty"]["n"] + "::" if e.get("qualified") else "") + e["variant"]
        return head + ("(" + ", ".join(R(a, ind) for a in e["as"]) + ")" if e["as"] else "")
    if k == "lam":
        ps = ", ".join(x + (": " + tystr(t) if t else "") for x, t in zip(e["ps"], e.get("pts", [None] * len(e["ps"]))))
        return "|" + ps + "| " + (render_block(e["b"], ind) if e["b"]["k"] == "block" else "{ " + R(e["b"], ind) + " }")
    if k == "if":
        return "if " + R(e["c"], ind) + " " + render_body(e["t"], ind) + " else " + render_body(e["e"], ind)
    if k == "while":
        return "(while " + R(e["c"], ind) + " " + render_body(e["b"], ind) + ")"
    if k == "match":
        I = "    " * (ind + 1)
        s = "match " + R(e["e"], ind) + " {\n"
        for a in e["arms"]:
            s += I + render_pat(a["p"]) + " => " + (render_block(a["b"], ind + 1) if a["b"]["k"] == "block" else R(a["b"], ind + 1)) + ",\n"
        return s + "    " * ind + "}"
    if k == "block":
        # goml has no bare block expression: a block in expression position is rendered as an always-true conditional
        return "if true " + render_block(e, ind) + " else " + render_block(e, ind)
    if k == "go":
        return "go " + R(e["e"], ind)
    raise ValueError("render: " + k)


def render_pat(p):
    k = p["k"]
    if k == "pvar":
        return p["x"]
    if k == "pwild":
        return "_"
    if k == "punit":
        return "()"
    if k == "pint":
        suf = {"int8": "i8", "int16": "i16", "int32": "i32", "int64": "i64", "uint8": "u8", "uint16": "u16", "uint32": "u32", "uint64": "u64"}[p["ty"]] if p.get("suffix") else ""
        return ("-" if p["neg"] else "") + "".join(str(d) for d in p["ds"]) + suf
    if k == "pbool":
        return "true" if p["v"] else "false"
    if k == "pstr":
        return render_str(p["v"])
    if k == "ptuple":
        return "(" + ", ".join(render_pat(x) for x in p["ps"]) + ")"
    if k == "pctor":
        head = (p["q"] + "::" if p.get("q") else "") + p["variant"]
        return head + ("(" + ", ".join(render_pat(x) for x in p["ps"]) + ")" if p["ps"] else "")
    if k == "pstruct":
        return p["n"] + " { " + ", ".join(f["f"] + ": " + render_pat(f["p"]) for f in p["fs"]) + " }"
    raise ValueError("pattern " + k)


class TextProgram(Program):
    """A program given as goml text (files of other packages go into the case's `extra_files`).  Its meaning is stated as the
    lines an accepted program must print: the semantic record is a `main` that prints them, so the usual comparison applies."""
    def __init__(self, name, text, expected_lines=()):
        super().__init__(name)
        self.text = text
        self.fn("main", [], UNIT, Block([println(Str(l)) for l in expected_lines], Unit))

    def render(self):
        return self.text
