"""C20 inputs: programs written from a declaration table, so that the members of every type are known independently of the
compiler: fields, inherent methods (with and without self), variants, trait methods.  From one table come
  * the complete program (hover sweeps over every position; hover oracle = the compile path's typed AST),
  * completion sites: the program with one statement being typed (`let zz = <receiver>.` / `Path::`, with and without a
    partial identifier), the set of names that exist there and, per name, the text that completes the statement."""

STRUCTS = {
    "Pt": {"gens": [], "fields": [("xs", "int32"), ("ys", "int32")]},
    "Bx": {"gens": ["T"], "fields": [("val", "T"), ("cnt", "int32")]},
    "Wr": {"gens": [], "fields": [("inner", "Pt"), ("label", "string")]},
}
ENUMS = {
    "Col": {"gens": [], "variants": [("Red", []), ("Grn", ["int32"]), ("Mix", ["int32", "bool"])]},
    "Opt": {"gens": ["T"], "variants": [("Non", []), ("Som", ["T"])]},
}
# inherent methods: type -> [(name, has_self, params after self [(n, ty)], ret, body)]
METHODS = {
    "Pt": [("norm", True, [("k", "int32")], "int32", "self.xs * k + self.ys"),
           ("flip", True, [], "Pt", "Pt { xs: self.ys, ys: self.xs }"),
           ("origin", False, [], "Pt", "Pt { xs: 0, ys: 0 }")],
    "Bx": [("get", True, [], "T", "self.val"),
           ("count", True, [], "int32", "self.cnt")],
}
# inherent methods of ONE instantiation of a generic type: they exist for receivers of exactly that type
INST_METHODS = {("Bx", "int32"): [("incr", True, [], "int32", "self.val + 1")],
                ("Bx", "string"): [("shout", True, [], "string", 'self.val + "!"')]}
TRAITS = {"Shw": [("show", [], "string"), ("size", ["int32"], "int32")]}
IMPLS = {("Shw", "Pt"): {"show": '"pt"', "size": "k + self.xs"}, ("Shw", "int32"): {"show": '"i"', "size": "k + self"}}

ARG = {"int32": "1", "bool": "true", "string": '"s"', "Pt": "Pt { xs: 1, ys: 2 }", "T": "1"}


def decl_text():
    L = []
    for n, d in STRUCTS.items():
        g = "[" + ", ".join(d["gens"]) + "]" if d["gens"] else ""
        L.append(f"struct {n}{g} {{ " + ", ".join(f"{f}: {t}" for f, t in d["fields"]) + " }")
    for n, d in ENUMS.items():
        g = "[" + ", ".join(d["gens"]) + "]" if d["gens"] else ""
        L.append(f"enum {n}{g} {{ " + ", ".join(v + ("(" + ", ".join(ts) + ")" if ts else "") for v, ts in d["variants"]) + " }")
    for n, ms in METHODS.items():
        gens = STRUCTS[n]["gens"]
        g = "[" + ", ".join(gens) + "]" if gens else ""
        L.append(f"impl{g} {n}{g} {{")
        for m, has_self, ps, ret, body in ms:
            params = ([f"self: {n}{g}"] if has_self else []) + [f"{a}: {t}" for a, t in ps]
            L.append(f"    fn {m}(" + ", ".join(params) + f") -> {ret} {{ {body} }}")
        L.append("}")
    for (n, arg), ms in INST_METHODS.items():
        L.append(f"impl {n}[{arg}] {{")
        for m, has_self, ps, ret, body in ms:
            params = ([f"self: {n}[{arg}]"] if has_self else []) + [f"{a}: {t}" for a, t in ps]
            L.append(f"    fn {m}(" + ", ".join(params) + f") -> {ret} {{ {body} }}")
        L.append("}")
    for tr, ms in TRAITS.items():
        L.append(f"trait {tr} {{")
        for m, ps, ret in ms:
            L.append(f"    fn {m}(" + ", ".join(["Self"] + ps) + f") -> {ret};")
        L.append("}")
    for (tr, ty), bodies in IMPLS.items():
        L.append(f"impl {tr} for {ty} {{")
        for m, ps, ret in TRAITS[tr]:
            params = [f"self: {ty}"] + [f"k: {t}" for t in ps]
            L.append(f"    fn {m}(" + ", ".join(params) + f") -> {ret} {{ {bodies[m]} }}")
        L.append("}")
    L.append("fn ident[T](v: T) -> T { v }")
    L.append("fn twice(f: (int32) -> int32, x: int32) -> int32 { f(f(x)) }")
    return "\n".join(L) + "\n"


MAIN_HEAD = """fn main() -> unit {
    let pt: Pt = Pt { xs: 4, ys: 5 };
    let bx: Bx[string] = Bx { val: "é世界", cnt: 2 }; // ünïcödé comment
    let bi: Bx[int32] = Bx { val: 7, cnt: 1 };
    let wr = Wr { inner: pt, label: "w" };
    let rf = ref(pt);
    let tp = (7, pt, "t");
    let inc = |a: int32| a + 1;
    let col = Col::Grn(inc(1));
    let opt: Opt[int32] = Opt::Som(3);
    let Pt { xs, ys } = pt;
    let sh = Pt { xs, ys };
"""
MAIN_TAIL = """    let n = pt.norm(3) + wr.inner.xs + bx.count() + twice(inc, 2) + sh.xs + xs + ys + bi.incr() + bi.get();
    let s = ident(bx.get()) + Shw::show(pt) + ident("x") + bx.shout();
    let m = match col { Col::Red => 0, Col::Grn(g) => g, Col::Mix(a, b) => if b { a } else { 0 } };
    let o = match opt { Opt::Non => 0, Opt::Som(v) => v };
    let _ = string_println(s + int32_to_string(n + m + o + Shw::size(pt, 1) + tp.0));
    ()
}
"""


def complete_program():
    return decl_text() + MAIN_HEAD + MAIN_TAIL


def call_args(ps, subst=None):
    return ", ".join(ARG[(subst or {}).get(t, t)] for _, t in ps)


def members_dot(ty, inst=None):
    """names a value of struct type `ty` (instantiated at `inst`) has after `.`: fields and inherent methods taking self ->
    completion text; methods of an impl for one instantiation exist only for receivers of that instantiation"""
    out = {}
    for f, _ in STRUCTS[ty]["fields"]:
        out[f] = f
    for m, has_self, ps, ret, body in METHODS.get(ty, []) + INST_METHODS.get((ty, inst), []):
        if has_self:
            out[m] = m + "(" + call_args(ps) + ")"
    return out


def statics_of(ty):
    out = {}
    for m, has_self, ps, ret, body in METHODS.get(ty, []):
        out[m] = m + "(" + ", ".join(([ARG["Pt"]] if has_self and ty == "Pt" else (['Bx { val: 1, cnt: 1 }'] if has_self else [])) + [ARG[t] for _, t in ps]) + ")"
    return out


def members_colon(ns):
    if ns in ENUMS:
        out = {v: v + ("(" + ", ".join(ARG[t] for t in ts) + ")" if ts else "") for v, ts in ENUMS[ns]["variants"]}
        return out
    if ns in STRUCTS:
        return statics_of(ns)
    if ns in TRAITS:
        return {m: m + "(" + ", ".join(["pt"] + [ARG[t] for t in ps]) + ")" for m, ps, ret in TRAITS[ns]}
    return {}


def sites():
    """-> list of {kind, text, line, col, exists: {name: completion}, prefix, stem (text before the name on that line)}"""
    out = []
    decl = decl_text()
    base_line = (decl + MAIN_HEAD).count("\n")
    dots = [("pt", "Pt"), ("wr", "Wr"), ("wr.inner", "Pt"), ("bx", "Bx", "string"), ("bi", "Bx", "int32"), ("rf", "Pt"), ("tp.1", "Pt"), ("pt.flip()", "Pt"),
            ("Pt::origin()", "Pt"), ("(pt)", "Pt"), ("ident(pt)", "Pt")]
    for recv, ty, *inst in dots:
        mem = members_dot(ty, inst[0] if inst else None)
        for prefix in [""] + sorted({n[:1] for n in mem}) + sorted({n[:2] for n in mem}):
            for closing in (";", ""):
                stem = f"    let zz = {recv}."
                line = stem + prefix + closing + "\n"
                text = decl + MAIN_HEAD + line + MAIN_TAIL
                out.append({"kind": "dot", "text": text, "line": base_line, "col": len((stem + prefix).encode()), "exists": mem, "prefix": prefix,
                            "stem": stem, "what": f"{recv}.{prefix}|{closing}", "head": decl + MAIN_HEAD, "tail": MAIN_TAIL})
    for ns in ["Col", "Opt", "Pt", "Bx", "Shw"]:
        mem = members_colon(ns)
        for prefix in [""] + sorted({n[:1] for n in mem}) + sorted({n[:2] for n in mem}):
            for closing in (";", ""):
                ann = ": Opt[int32]" if ns == "Opt" else ""          # a variant without payload does not fix the type argument
                stem = f"    let zz{ann} = {ns}::"
                line = stem + prefix + closing + "\n"
                text = decl + MAIN_HEAD + line + MAIN_TAIL
                out.append({"kind": "colon", "text": text, "line": base_line, "col": len((stem + prefix).encode()), "exists": mem, "prefix": prefix,
                            "stem": stem, "what": f"{ns}::{prefix}|{closing}", "head": decl + MAIN_HEAD, "tail": MAIN_TAIL})
    return out


# one text holding every lexical form whose typing passes through a half-finished token: typed keystroke by keystroke
# (Editor.tla, unit = "byte") every prefix of it is an editor buffer
TYPING_TEXT = """#[derive(ToString)]
enum Dir { Up, Dn(int32) }
fn main() -> unit {
    let poem = \\\\roses "é" are red
        \\\\violets \\\\\\\\ blue
\t\\\\
    ;
    let s = "a\\n\\"b\\\\\\u00e9" + poem; // é世 comment
    let n = 12i64 + 7i64; let f = 1.5 + 2.0f64;
    let u: uint8 = 200u8; let g = -3;
    let t = (n >= 1i64 && !(g != 3)) || f <= 0.5;
    let v = match Dir::Dn(1) { Dir::Up => 0, Dir::Dn(k) => k };
    let _ = string_println(s + int32_to_string(v));
    ()
}
"""
