"""Generic driver for family-based translation-validation checks (C01, C06-C10, C17-C19)."""
import os
from common import *
import tv, engine


def run_families(prop, rep, progs_with_meta, name, maxsteps=20000, differ_is_violation=True, goinvalid_is_violation=False,
                 crash_is_violation=False, same_meaning=None):
    """progs_with_meta: list of {prog, family, ident, expect?}; returns (cases, counts)"""
    root = workdir(name)
    cases = tv.prepare_cases(progs_with_meta, root)
    st = tv.validate(cases, maxsteps=maxsteps, name=name)
    counts = tv.summarize(cases)
    fams = {}
    for c in cases:
        f = fams.setdefault(c["family"], {})
        f[c["cls"]] = f.get(c["cls"], 0) + 1
        cls, d = c["cls"], c["cls_detail"]
        exp = c.get("expect")
        replay = {"path": c["path"], "ident": c["ident"]}
        if cls == "differ" and same_meaning is not None and isinstance(d, dict) and d.get("expected_status") == d.get("go_status") \
                and same_meaning(c.get("oracle", {}).get("out", b""), (c.get("sem") or {}).get("out", b"")):
            c["cls"] = cls = "agree"          # different spelling of the same value (e.g. two JSON texts that decode alike)
        if cls == "differ" and differ_is_violation:
            rep.violation(c["ident"], dict(d, source=c["text"][-2500:]), replay=replay)
        elif cls == "go-invalid" and goinvalid_is_violation:
            import c02
            rep.violation(c["ident"] + ":" + c02.rule_of(d), {"go_error": d, "source": c["text"][-2500:]}, replay=replay)
        elif cls == "crash" and crash_is_violation:
            rep.violation(c["ident"] + ":crash", {"detail": d, "source": c["text"][-2500:]}, replay=replay)
        elif cls == "rejected" and exp == "accept":
            rep.violation(c["ident"] + ":rejected", {"diagnostics": d, "source": c["text"][-2500:]}, replay=replay)
        elif cls not in ("rejected", "crash") and exp == "reject":
            rep.violation(c["ident"] + ":accepted", {"source": c["text"][-2500:]}, replay=replay)
    for c in cases[:2]:
        rep.sample({"case": c["ident"], "class": c["cls"], "source": c["text"][-700:],
                    "expected_stdout": (c.get("oracle") or {}).get("out", b"").decode("utf-8", "replace")[:200]})
    rep.coverage.setdefault("programs", 0)
    rep.coverage["programs"] += len(cases)
    rep.coverage.setdefault("disagreements_checked", 0)
    rep.coverage["disagreements_checked"] += counts.get("agree", 0) + counts.get("differ", 0)
    cl = rep.coverage.setdefault("classes", {})
    for k, v in counts.items():
        cl[k] = cl.get(k, 0) + v
    rep.coverage.setdefault("families", {}).update(fams)
    rep.coverage["states"] = rep.coverage.get("states", 0) + st["states"]
    rep.coverage["transitions"] = rep.coverage.get("transitions", 0) + st["transitions"]
    return cases, counts


STD_ASSUMPTIONS = [
    "GomlSem.tla is the source-level meaning (my specification of goml's documented semantics); GoSem.tla is my specification of the emitted Go subset, "
    "calibrated byte-for-byte on the recorded real-Go outputs of the repository corpus; no Go toolchain exists in the sandbox",
    "programs that leave the modelled subset on either side are counted as unsupported/inconclusive, never as violations",
]
