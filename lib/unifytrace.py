"""Trace validation of the type checker's unifier (typer/unify.rs, Typer::unify as called from Typer::solve) against
spec/Unify.tla through spec/UnifyTrace.tla: for every TypeEqual constraint the real solver handed to the unifier the hook
reports both sides normalised before the call, the verdict, and both sides normalised after it.  TLC accepts a call when
the verdict is the model's, the sides only got instantiated, a success made them the same type (up to the wildcard array
length) and instantiated nothing it did not have to (the result is the model's most general one up to the choice of
representative variables).  A unifier that accepts two different types, skips the occurs check somewhere, forgets a
constructor or binds too much is rejected at the call where it happens, whether or not the program's outcome shows it."""
import copy, json, os, threading
from common import *

WILD = (1 << 64) - 1
PRIMS = {"TUnit", "TBool", "TInt8", "TInt16", "TInt32", "TInt64", "TUint8", "TUint16", "TUint32", "TUint64", "TFloat32", "TFloat64", "TString"}


def ty(j, ren):
    """serde form of tast::Ty -> the uniform record [k, n, v, a] of Unify.tla; variables renamed by first occurrence"""
    def rec(k, n="", v=0, a=()):
        return {"k": k, "n": n, "v": v, "a": list(a)}
    if isinstance(j, str):
        if j not in PRIMS:
            raise ToolError(f"unifytrace: unknown type constant {j}")
        return rec("prim", j)
    (tag, body), = j.items()
    if tag == "TVar":
        return rec("var", v=ren.setdefault(body, len(ren) + 1))
    if tag == "TTuple":
        return rec("tuple", a=[ty(x, ren) for x in body["typs"]])
    if tag == "TEnum":
        return rec("enum", body["name"])
    if tag == "TStruct":
        return rec("struct", body["name"])
    if tag == "TDyn":
        return rec("dyn", body["trait_name"])
    if tag == "TParam":
        return rec("param", body["name"])
    if tag == "TApp":
        return rec("app", a=[ty(body["ty"], ren)] + [ty(x, ren) for x in body["args"]])
    if tag == "TArray":
        n = body["len"]
        return rec("array", v=-1 if n == WILD else min(n, 2000000000), a=[ty(body["elem"], ren)])
    if tag in ("TVec", "TRef"):
        return rec("vec" if tag == "TVec" else "ref", a=[ty(body["elem"], ren)])
    if tag == "TFunc":
        return rec("func", a=[ty(x, ren) for x in body["params"]] + [ty(body["ret_ty"], ren)])
    raise ToolError(f"unifytrace: unknown type constructor {tag}")


def calls_of(events):
    """hook events of one compilation -> [{ev: unify | field_ok, ...}] (a call whose return was never reported - a panic inside
    the unifier - is dropped: the crash itself is C04's business)"""
    out, i = [], 0
    while i < len(events):
        e = events[i]
        if e["ev"] == "unify_field_ok":
            ren = {}
            out.append({"ev": "field_ok", "l": ty(e["l"], ren), "r": ty(e["r"], ren)})
        elif e["ev"] == "unify_call":
            ok, j = False, i + 1
            while j < len(events) and events[j]["ev"] not in ("unify_ret", "unify_call"):
                ok = ok or events[j]["ev"] == "unify_ok"
                j += 1
            if j < len(events) and events[j]["ev"] == "unify_ret":
                ren = {}
                out.append({"ev": "unify", "l": ty(e["l"], ren), "r": ty(e["r"], ren), "ok": ok, "l2": ty(events[j]["l"], ren), "r2": ty(events[j]["r"], ren)})
                i = j
        i += 1
    return out


def validate(cases, rep, name, ident=lambda c: c.get("ident", c["id"]), limit_ms=20000, answers=None):
    """cases: [{id, path | text+dir}].  Identical calls (after renaming variables by first occurrence) are validated once."""
    need_feature("hooks")
    if answers is None:
        reqs = []
        for c in cases:
            r = {"id": str(c["id"]), "trace": ["unify"]}
            if "text" in c:
                r.update(text=c["text"], dir=c["dir"])
            else:
                r["path"] = c["path"]
            reqs.append(r)
        answers = gv_robust("compile", reqs, extra=["--limit-ms", str(limit_ms)])
    seen, recs, total, progs = {}, [], 0, 0
    for c, a in zip(cases, answers):
        evs = [e for e in a.get("trace", []) if str(e.get("ev", "")).startswith("unify_")]
        if not evs:
            continue
        progs += 1
        for call in calls_of(evs):
            total += 1
            key = json.dumps(call, sort_keys=True)
            if key not in seen:
                seen[key] = c
                recs.append((call, c))
    stats = {"programs": progs, "unify_calls": total, "distinct_calls_validated": len(recs), "refused_calls": sum(1 for r, _ in recs if r["ev"] == "unify" and not r["ok"]),
             "calls_binding_a_variable": sum(1 for r, _ in recs if r["ev"] == "unify" and r["ok"] and (r["l"] != r["l2"] or r["r"] != r["r2"])), "states": 0}
    if not recs:
        return stats
    shards = min(NCPU, max(1, len(recs) // 400))
    d = workdir(f"unify-{name}-{os.getpid()}")
    chunks = [recs[i::shards] for i in range(shards)]
    results = [None] * shards

    def go(i):
        path = os.path.join(d, f"u{i}.ndjson")
        write_lines(path, [r for r, _ in chunks[i]])
        try:
            results[i] = run_tlc("UnifyTrace", "UnifyTrace.cfg", env={"UNIFY": path}, workers=1, xmx="3g", timeout=1500, xss="512m", name=f"unify-{name}-{i}")
        except ToolError as e:
            results[i] = e
    ths = [threading.Thread(target=go, args=(i,)) for i in range(shards)]
    [t.start() for t in ths]
    [t.join() for t in ths]
    for i, r in enumerate(results):
        if isinstance(r, Exception):
            raise r
        if r.rc != 0:
            raise ToolError(f"TLC UnifyTrace shard {i} failed rc={r.rc}: " + (r.error or r.stdout[-1500:]))
        done = r.json_prints("UNIFYDONE")
        if not done or done[0]["events"] != len(chunks[i]):
            raise ToolError("UnifyTrace: the trace was not consumed to its end")
        stats["states"] += r.distinct
        for rj in r.json_prints("UNIFYREJECT"):
            call, c = chunks[i][rj["at"] - 1]
            why = "+".join(k for k in ("verdict", "grows", "unified", "general") if not rj[k])
            kinds = "/".join(sorted({call["l"]["k"], call["r"]["k"]}))
            rep.violation(f"{ident(c)}:unify:{why}:{kinds}", {"call": call, "failed": why, "source": c.get("text", c.get("path"))})
    stats["selftest_corrupted_calls_rejected"] = selftest([r for r, _ in recs], name)
    return stats


def _subst_var(t, v, by):
    if t["k"] == "var":
        return copy.deepcopy(by) if t["v"] == v else t
    return dict(t, a=[_subst_var(x, v, by) for x in t["a"]])


def _vars(t, out):
    if t["k"] == "var":
        out.add(t["v"])
    for x in t["a"]:
        _vars(x, out)
    return out


def selftest(calls, name):
    """Binding demonstration: recorded calls with ONE field corrupted must all be rejected by UnifyTrace.tla - the verdict flipped;
    one side after the call replaced by another type; a variable the call left unbound reported as bound to int32 (less general)."""
    INT = {"k": "prim", "n": "TInt32", "v": 0, "a": []}
    BOOL = {"k": "prim", "n": "TBool", "v": 0, "a": []}
    bad = []
    for c in calls:
        if c["ev"] != "unify":
            continue
        if len(bad) < 40:
            bad.append(("verdict", dict(c, ok=not c["ok"])))
        if c["ok"] and c["l2"] != BOOL and sum(1 for k, _ in bad if k == "unified") < 20:
            bad.append(("unified", dict(c, l2=BOOL, r2=INT)))
        free = _vars(c["l2"], set()) | _vars(c["r2"], set())
        if c["ok"] and free and sum(1 for k, _ in bad if k == "general") < 20:
            v = sorted(free)[0]
            bad.append(("general", dict(c, l2=_subst_var(c["l2"], v, INT), r2=_subst_var(c["r2"], v, INT))))
    if len(bad) < 30:
        raise ToolError("unifytrace self-test: too few calls to corrupt")
    d = workdir(f"unify-selftest-{name}-{os.getpid()}")
    path = os.path.join(d, "bad.ndjson")
    write_lines(path, [c for _, c in bad])
    r = run_tlc("UnifyTrace", "UnifyTrace.cfg", env={"UNIFY": path}, workers=1, xmx="2g", timeout=600, xss="512m", name=f"unify-selftest-{name}")
    if r.rc != 0:
        raise ToolError("UnifyTrace self-test failed to run: " + (r.error or r.stdout[-800:]))
    rejected = {rj["at"] for rj in r.json_prints("UNIFYREJECT")}
    missed = [bad[i][0] for i in range(len(bad)) if i + 1 not in rejected]
    if missed:
        raise ToolError(f"unifytrace self-test: {len(missed)} corrupted calls were accepted ({sorted(set(missed))}) - the trace specification does not bind that field")
    return len(bad)


def design_model(tier):
    """TLC on Unify.tla itself: the configurations that must hold and the ones that must fail (the wildcard array length makes
    'unified' weaker than equality; an occurs check that skips function results leaves a cyclic store)."""
    out = {}
    for cfg, mod, must in [("Unify_small.cfg", "Unify", None), ("Unify_wild.cfg", "MCUnify", None), ("Unify_wild_exact.cfg", "MCUnify", "InvUnifiedExact"),
                           ("Unify_occurs.cfg", "Unify", "InvAcyclic")] + ([("Unify_rich.cfg", "Unify", None)] if tier != "quick" else []):
        r = run_tlc(mod, cfg, workers=4, xmx="3g", timeout=1800, name="unify-" + cfg[:-4])
        if must is None:
            if not tlc_ok(r, cfg):
                raise ToolError(f"{cfg}: {r.violated} is violated in the design model of the unifier")
        elif r.violated != must:
            raise ToolError(f"{cfg}: expected {must} to be violated, got {r.violated} / {r.error}")
        out[cfg[:-4]] = {"distinct_states": r.distinct, "violated": r.violated}
    return out
