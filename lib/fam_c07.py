"""C07 family: generic templates x tuples of concrete type arguments (primitives, tuples, arrays, Vec, Ref, function
types, structs, enums, nested generic instances).  Each program instantiates one template at two or three argument
tuples and prints the results; the meaning is GomlSem's (type passing), the implementation is the monomorphised Go.
c07-under: generic functions whose type parameter occurs only under a type former (Vec, Ref, array, tuples, function type,
generic struct / enum / recursive enum and their compositions) -- in the parameters only, in the result only, with a trait
bound, reached through another generic function -- at two instantiations each."""
from gast import *

S = TAdt("S")
E = TAdt("E")


def box(t):
    return TAdt("Box", t)


def opt(t):
    return TAdt("Opt", t)


# type -> (tag, sample values as GAST, show: expr -> string expr)
def catalogue():
    c = {}
    c["int32"] = (INT32, [Int(7), Int(-3)], lambda e: Call("int32_to_string", e))
    c["bool"] = (BOOL, [Bool(True), Bool(False)], lambda e: Call("bool_to_string", e))
    c["string"] = (STRING, [Str("hi"), Str("")], lambda e: e)
    c["int8"] = (INT8, [Int(5, "int8", suffix=True), Int(100, "int8", suffix=True)], lambda e: Call("int8_to_string", e))
    c["unit"] = (UNIT, [Unit], lambda e: Call("unit_to_string", e))
    c["tup"] = (TTuple(INT32, BOOL), [Tuple(Int(1), Bool(True)), Tuple(Int(2), Bool(False))],
                lambda e: Bin("+", Call("int32_to_string", Proj(e, 0)), Call("bool_to_string", Proj(e, 1))))
    c["arr"] = (TArray(2, INT32), [Array(Int(4), Int(5))], lambda e: Bin("+", Call("int32_to_string", Call("array_get", e, Int(0))), Call("int32_to_string", Call("array_get", e, Int(1)))))
    c["ref"] = (TRef(INT32), [Call("ref", Int(9))], lambda e: Call("int32_to_string", Call("ref_get", e)))
    c["fn"] = (TFn([INT32], INT32), [FnRef("inc")], lambda e: Call("int32_to_string", CallV(e, Int(1))))
    c["S"] = (S, [Struct(S, [("a", Int(3)), ("b", Bool(True))])], lambda e: Bin("+", Str("S"), Call("int32_to_string", Field(e, "a"))))
    c["E"] = (E, [Ctor(E, "B", Int(6)), Ctor(E, "A")], lambda e: Call("show_e", e))
    c["vec"] = (TVec(INT32), [Call("vec_push", Call("vec_new", targs=[INT32]), Int(8))], lambda e: Call("int32_to_string", Call("vec_len", e)))
    c["boxi"] = (box(INT32), [Struct(box(INT32), [("v", Int(11))])], lambda e: Bin("+", Str("Box"), Call("int32_to_string", Field(e, "v"))))
    c["boxs"] = (box(STRING), [Struct(box(STRING), [("v", Str("w"))])], lambda e: Bin("+", Str("Box"), Field(e, "v")))
    c["optb"] = (opt(BOOL), [Ctor(opt(BOOL), "Som", Bool(True)), Ctor(opt(BOOL), "Non")], lambda e: Call("show_optb", e))
    c["optopt"] = (opt(opt(BOOL)), [Ctor(opt(opt(BOOL)), "Som", Ctor(opt(BOOL), "Non"))], lambda e: Call("show_optopt", e))
    return c


def prelude(p):
    p.struct("S", [("a", INT32), ("b", BOOL)])
    p.enum("E", [("A", []), ("B", [INT32])])
    p.struct("Box", [("v", TParam("T"))], gens=["T"])
    p.enum("Opt", [("Non", []), ("Som", [TParam("T")])], gens=["T"])
    p.enum("List", [("Nil", []), ("Cons", [TParam("T"), TAdt("List", TParam("T"))])], gens=["T"])
    p.trait("Show", [("show", [], STRING)])
    p.impl("Show", INT32, [("show", [("self", INT32)], STRING, Bin("+", Str("i"), Call("int32_to_string", Var("self"))))])
    p.impl("Show", BOOL, [("show", [("self", BOOL)], STRING, Bin("+", Str("b"), Call("bool_to_string", Var("self"))))])
    p.impl("Show", STRING, [("show", [("self", STRING)], STRING, Bin("+", Str("s"), Var("self")))])
    p.impl("Show", S, [("show", [("self", S)], STRING, Bin("+", Str("S"), Call("int32_to_string", Field(Var("self"), "a"))))])
    p.impl("Show", box(INT32), [("show", [("self", box(INT32))], STRING, Bin("+", Str("BI"), Call("int32_to_string", Field(Var("self"), "v"))))])
    p.impl("Show", box(STRING), [("show", [("self", box(STRING))], STRING, Bin("+", Str("BS"), Field(Var("self"), "v")))])
    p.impl("Show", opt(BOOL), [("show", [("self", opt(BOOL))], STRING, Match(Var("self"), [(PCtor("Non"), Str("ob-")), (PCtor("Som", PVar("x")), Bin("+", Str("ob"), Call("bool_to_string", Var("x"))))]))])
    p.fn("inc", [("x", INT32)], INT32, Bin("+", Var("x"), Int(1)))
    p.fn("show_e", [("e", E)], STRING, Match(Var("e"), [(PCtor("A"), Str("A")), (PCtor("B", PVar("x")), Bin("+", Str("B"), Call("int32_to_string", Var("x"))))]))
    p.fn("show_optb", [("o", opt(BOOL))], STRING, Match(Var("o"), [(PCtor("Non"), Str("-")), (PCtor("Som", PVar("x")), Call("bool_to_string", Var("x")))]))
    p.fn("show_optopt", [("o", opt(opt(BOOL)))], STRING, Match(Var("o"), [(PCtor("Non"), Str("--")), (PCtor("Som", PVar("x")), Bin("+", Str("+"), Call("show_optb", Var("x"))))]))
    # templates
    Tp, Up = TParam("T"), TParam("U")
    p.fn("id", [("x", Tp)], Tp, Var("x"), gens=["T"])
    p.fn("swap", [("p", TTuple(Tp, Up))], TTuple(Up, Tp), Tuple(Proj(Var("p"), 1), Proj(Var("p"), 0)), gens=["T", "U"])
    p.fn("first", [("x", Tp), ("y", Up)], Tp, Var("x"), gens=["T", "U"])
    p.fn("mkbox", [("x", Tp)], box(Tp), Struct(box(Tp), [("v", Var("x"))]), gens=["T"])
    p.fn("unbox", [("b", box(Tp))], Tp, Field(Var("b"), "v"), gens=["T"])
    p.fn("get_or", [("o", opt(Tp)), ("d", Tp)], Tp, Match(Var("o"), [(PCtor("Som", PVar("x")), Var("x")), (PCtor("Non"), Var("d"))]), gens=["T"])
    p.fn("nothing", [], opt(Tp), Ctor(opt(Tp), "Non"), gens=["T"])
    p.fn("wrap2", [("x", Tp)], opt(opt(Tp)), Ctor(opt(opt(Tp)), "Som", Ctor(opt(Tp), "Som", Var("x"))), gens=["T"])
    p.fn("apply", [("f", TFn([Tp], Up)), ("x", Tp)], Up, CallV(Var("f"), Var("x")), gens=["T", "U"])
    # a generic function used as a *value* inside generic code: its instance is fixed only when the enclosing one is
    p.fn("through", [("x", Tp)], Tp, Call("apply", FnRef("id", targs=[Tp]), Var("x"), targs=[Tp, Tp]), gens=["T"])
    p.fn("stored", [("x", Up)], Up, Block([Let("f", FnRef("id", targs=[Up]))], CallV(Var("f"), Var("x"))), gens=["U"])
    p.fn("boxed_through", [("x", Tp)], box(Tp), Call("apply", FnRef("mkbox", targs=[Tp]), Var("x"), targs=[Tp, box(Tp)]), gens=["T"])
    p.fn("gshow", [("x", Tp)], STRING, TCall("Show", "show", Var("x")), gens=[("T", ["Show"])])
    p.fn("gshow_m", [("x", Tp)], STRING, TCall("Show", "show", Var("x"), form="method"), gens=[("T", ["Show"])])
    p.fn("twice", [("x", Tp)], STRING, Bin("+", Call("gshow", Var("x"), targs=[Tp]), Call("gshow", Var("x"), targs=[Tp])), gens=[("T", ["Show"])])
    p.fn("pair_show", [("x", Tp), ("y", Up)], STRING, Bin("+", Call("gshow", Var("x"), targs=[Tp]), Call("gshow", Var("y"), targs=[Up])), gens=[("T", ["Show"]), ("U", ["Show"])])
    LT = TAdt("List", Tp)
    p.fn("len", [("l", LT)], INT32, Match(Var("l"), [(PCtor("Nil"), Int(0)), (PCtor("Cons", PWild, PVar("t")), Bin("+", Int(1), Call("len", Var("t"), targs=[Tp])))]), gens=["T"])
    p.fn("head_or", [("l", LT), ("d", Tp)], Tp, Match(Var("l"), [(PCtor("Nil"), Var("d")), (PCtor("Cons", PVar("h"), PWild), Var("h"))]), gens=["T"])


def programs(tier):
    cat = catalogue()
    out = []

    def add(ident, stmts):
        p = Program("c07_" + ident.replace(":", "_").replace(",", "_").replace("+", "_"))
        prelude(p)
        p.fn("main", [], UNIT, Block(stmts, Unit))
        out.append({"prog": p, "family": "c07", "ident": "c07:" + ident})

    keys = list(cat)
    pairs = [("int32", "bool"), ("string", "int32"), ("tup", "S"), ("arr", "E"), ("ref", "fn"), ("boxi", "boxs"), ("optb", "optopt"),
             ("int8", "int32"), ("unit", "string"), ("vec", "int32"), ("E", "S"), ("fn", "tup")]
    if tier == "quick":
        pairs = pairs[:9] + [("vec", "int32")]
    cnt = [0]

    def shown(call, ty, showfn):
        """bind the result with its type annotation (the typer cannot project on a not-yet-inferred call result), then print it"""
        cnt[0] += 1
        n = f"r{cnt[0]}"
        return [Let(n, call, ty=ty), println(showfn(Var(n)))]

    for a, b in pairs:
        (ta, va, sa), (tb, vb, sb) = cat[a], cat[b]
        x, y = va[0], vb[0]
        # one template at two instantiations (T := a and T := b) in one program
        add(f"id:{a},{b}", shown(Call("id", x, targs=[ta]), ta, sa) + shown(Call("id", y, targs=[tb]), tb, sb))
        add(f"swap:{a},{b}", [Let(PTuple(PVar("p0"), PVar("p1")), Call("swap", Tuple(x, y), targs=[ta, tb])), println(sb(Var("p0"))), println(sa(Var("p1"))),
                              Let(PTuple(PVar("q0"), PVar("q1")), Call("swap", Tuple(y, x), targs=[tb, ta])), println(sa(Var("q0"))), println(sb(Var("q1")))])
        add(f"first:{a},{b}", shown(Call("first", x, y, targs=[ta, tb]), ta, sa) + shown(Call("first", y, x, targs=[tb, ta]), tb, sb))
        add(f"box:{a},{b}", shown(Call("unbox", Call("mkbox", x, targs=[ta]), targs=[ta]), ta, sa) + shown(Call("unbox", Call("mkbox", y, targs=[tb]), targs=[tb]), tb, sb))
        add(f"opt:{a},{b}", shown(Call("get_or", Ctor(opt(ta), "Som", x), va[-1], targs=[ta]), ta, sa)
                            + [Let("e2", Ctor(opt(tb), "Non"), ty=opt(tb))] + shown(Call("get_or", Var("e2"), y, targs=[tb]), tb, sb)
                            + [Let("n1", Call("nothing", targs=[ta]), ty=opt(ta)), Let("n2", Call("nothing", targs=[tb]), ty=opt(tb))]
                            + shown(Call("get_or", Var("n1"), x, targs=[ta]), ta, sa) + shown(Call("get_or", Var("n2"), y, targs=[tb]), tb, sb))
        add(f"nested:{a},{b}", [Let("w", Call("wrap2", x, targs=[ta]), ty=opt(opt(ta))), Let("wn", Ctor(opt(ta), "Non"), ty=opt(ta)),
                                Let("wi", Call("get_or", Var("w"), Var("wn"), targs=[opt(ta)]), ty=opt(ta))] + shown(Call("get_or", Var("wi"), va[-1], targs=[ta]), ta, sa)
                               + [Let("z", Call("wrap2", y, targs=[tb]), ty=opt(opt(tb))), Let("zn", Ctor(opt(tb), "Non"), ty=opt(tb)),
                                  Let("zi", Call("get_or", Var("z"), Var("zn"), targs=[opt(tb)]), ty=opt(tb))] + shown(Call("get_or", Var("zi"), vb[-1], targs=[tb]), tb, sb))
        add(f"fnvalue:{a},{b}", shown(Call("through", x, targs=[ta]), ta, sa) + shown(Call("through", y, targs=[tb]), tb, sb)
                                + shown(Call("stored", x, targs=[ta]), ta, sa) + shown(Call("stored", y, targs=[tb]), tb, sb)
                                + shown(Call("unbox", Call("boxed_through", x, targs=[ta]), targs=[ta]), ta, sa)
                                + shown(Call("apply", FnRef("id", targs=[tb]), y, targs=[tb, tb]), tb, sb))
        LA, LB = TAdt("List", ta), TAdt("List", tb)
        add(f"list:{a},{b}", [Let("l0", Ctor(LA, "Nil"), ty=LA), Let("l", Ctor(LA, "Cons", x, Ctor(LA, "Cons", va[-1], Var("l0"))), ty=LA),
                              println(Call("int32_to_string", Call("len", Var("l"), targs=[ta])))] + shown(Call("head_or", Var("l"), va[-1], targs=[ta]), ta, sa)
                             + [Let("m", Ctor(LB, "Nil"), ty=LB), println(Call("int32_to_string", Call("len", Var("m"), targs=[tb])))] + shown(Call("head_or", Var("m"), y, targs=[tb]), tb, sb))
    # function-typed parameter instantiated twice
    add("apply:int32->string,bool->int32", [
        Let("f", Lam([("x", INT32)], Call("int32_to_string", Var("x")))), Let("g", Lam([("b", BOOL)], If(Var("b"), Int(1), Int(0)))),
        println(Call("apply", Var("f"), Int(5), targs=[INT32, STRING])), println(Call("int32_to_string", Call("apply", Var("g"), Bool(True), targs=[BOOL, INT32])))])
    # trait bounds: the same generic function at several types that all implement the trait (incl. two instances of one generic type)
    showable = ["int32", "bool", "string", "S", "boxi", "boxs", "optb"]
    for i, a in enumerate(showable):
        for b in showable[i + 1:]:
            if tier == "quick" and (i + showable.index(b)) % 2:
                continue
            (ta, va, _), (tb, vb, _) = cat[a], cat[b]
            add(f"bound:{a},{b}", [println(Call("gshow", va[0], targs=[ta])), println(Call("gshow", vb[0], targs=[tb])),
                                  println(Call("gshow_m", va[0], targs=[ta])), println(Call("twice", vb[0], targs=[tb])), println(Call("twice", va[0], targs=[ta])),
                                  println(Call("pair_show", va[0], vb[0], targs=[ta, tb])), println(Call("pair_show", vb[0], va[0], targs=[tb, ta]))])
    out += under_programs(tier, cat)
    out += shared_names_programs()
    out += closed_field_programs()
    return out


def closed_field_programs():
    """A generic struct / enum one of whose fields does not mention its parameter but is itself an instance of another generic type
    (directly, under Vec, in a tuple, under Ref): every instance of the outer type needs that field specialised too."""
    from gast import TextProgram
    out = []
    hd = "enum Opt[T] { Non, Som(T) }\nstruct Bx[T] { v: T }\nfn so(o: Opt[int32]) -> string { match o { Opt::Non => \"non\", Opt::Som(k) => int32_to_string(k) } }\nfn fst(t: (Opt[int32], bool)) -> string { so(t.0) }\n"
    cases = {
        "direct": ("struct Tg[T] { val: T, tag: Opt[int32] }", "Tg { val: {V}, tag: Opt::Som(4) }", "so(x.tag)"),
        "struct-instance": ("struct Tg[T] { val: T, tag: Bx[int32] }", "Tg { val: {V}, tag: Bx { v: 4 } }", "int32_to_string(x.tag.v)"),
        "under-vec": ("struct Tg[T] { val: T, tag: Vec[Opt[int32]] }", "Tg { val: {V}, tag: vec_push(vec_new(), Opt::Som(4)) }", "so(vec_get(x.tag, 0))"),
        "in-tuple": ("struct Tg[T] { val: T, tag: (Opt[int32], bool) }", "Tg { val: {V}, tag: (Opt::Som(4), true) }", "fst(x.tag)"),
        "under-ref": ("struct Tg[T] { val: T, tag: Ref[Opt[int32]] }", "Tg { val: {V}, tag: ref(Opt::Som(4)) }", "so(ref_get(x.tag))"),
        "enum-payload": ("enum Tg[T] { K(T, Opt[int32]), Z }", "Tg::K({V}, Opt::Som(4))", "match x { Tg::K(_, o) => so(o), Tg::Z => \"z\" }"),
    }
    for name, (decl, mk, use) in cases.items():
        stmts = ""
        for i, (ty, v) in enumerate((("int32", "1"), ("string", '"s"'), ("bool", "true"))):
            stmts += f"    let x: Tg[{ty}] = " + mk.replace("{V}", v) + f";\n    let r{i}: string = {use};\n".replace("x.", "x.").replace(" x ", " x ")
            stmts = stmts.replace("let x:", f"let x{i}:").replace("(x.", f"(x{i}.").replace("= x.", f"= x{i}.").replace("match x ", f"match x{i} ")
        text = hd + decl + "\nfn main() -> unit {\n" + stmts + "    let _ = string_println(r0 + r1 + r2);\n    ()\n}\n"
        out.append({"prog": TextProgram("c07_closedfield_" + name.replace("-", "_"), text, ["444"]), "family": "c07-closed-field",
                    "ident": f"c07:field-is-a-closed-instance-of-another-generic:{name}", "expect": "accept"})
    return out


def shared_names_programs():
    """A generic function whose type parameters are spelled like the type parameters of the generic struct it reads fields of, in
    another order / another position / partly instantiated: instantiating the field type is a simultaneous substitution, so the
    names of the struct's own parameters must not capture the arguments."""
    from gast import TextProgram
    out = []
    decl = "struct Pair[T, U] { first: T, second: U }\nstruct Tri[T, U, V] { a: T, b: U, c: V }\n"
    fns = {
        "swapped-first": ("fn f[T, U](p: Pair[U, T]) -> U { p.first }", 'f(Pair { first: "s", second: 1 })', "string", "s"),
        "swapped-second": ("fn f[T, U](p: Pair[U, T]) -> T { p.second }", 'f(Pair { first: "s", second: 1 })', "int32", "1"),
        "later-name-first-position": ("fn f[U](p: Pair[U, int32]) -> U { p.first }", 'f(Pair { first: "s", second: 1 })', "string", "s"),
        "earlier-name-second-position": ("fn f[T](p: Pair[int32, T]) -> T { p.second }", 'f(Pair { first: 1, second: "s" })', "string", "s"),
        "rotated-a": ("fn f[T, U, V](p: Tri[U, V, T]) -> U { p.a }", 'f(Tri { a: "s", b: true, c: 1 })', "string", "s"),
        "rotated-b": ("fn f[T, U, V](p: Tri[U, V, T]) -> V { p.b }", 'f(Tri { a: "s", b: 2, c: true })', "int32", "2"),
        "rotated-c": ("fn f[T, U, V](p: Tri[V, T, U]) -> U { p.c }", 'f(Tri { a: true, b: 2, c: "s" })', "string", "s"),
        "nested-argument": ("fn f[T, U](p: Pair[Pair[U, T], T]) -> Pair[U, T] { p.first }", 'f(Pair { first: Pair { first: "s", second: 1 }, second: 2 }).first', "string", "s"),
        "same-order-control": ("fn f[T, U](p: Pair[T, U]) -> T { p.first }", 'f(Pair { first: "s", second: 1 })', "string", "s"),
    }
    for name, (fn, call, ty, val) in fns.items():
        show = "r" if ty == "string" else "int32_to_string(r)"
        text = decl + fn + f"\nfn main() -> unit {{\n    let r: {ty} = {call};\n    let _ = string_println({show});\n    ()\n}}\n"
        out.append({"prog": TextProgram("c07_sharednames_" + name.replace("-", "_"), text, [val]), "family": "c07-shared-names",
                    "ident": f"c07:type-parameter-named-like-the-struct's:{name}", "expect": "accept"})
    return out


# ---------------------------------------------------------------- type parameter only under a type former
# A former F wraps a type: F[T] is the only place the parameter T occurs in the signature of the generic function (parameters
# only, result only, with a trait bound, reached through another generic function).  A former gives
#   ty(t)            the type F[t]
#   build(x, t, key) an expression of type F[t] holding the value x (key names the catalogue entry of t)
#   elim(c, k, d)    an expression that takes an element y out of c and continues with k(y), or d when c holds none
#   empty(t)         an expression of type F[t] that needs no value of t, or None
class Former:
    def __init__(self, name, ty, build, elim, empty=None, konst=None):
        # konst(x, t, key) -> (type, body) of the top-level function `konst_<key>` that build() refers to, when it needs one
        self.name, self.ty, self.build, self.elim, self.empty, self.konst = name, ty, build, elim, empty, konst
        self.needs_konst = konst is not None


def formers():
    F = {}
    F["vec"] = Former("vec", TVec, lambda x, t, key: Call("vec_push", Call("vec_new", targs=[t]), x),
                      lambda c, k, d, t: If(Bin("<", Int(0), Call("vec_len", c)), k(Call("vec_get", c, Int(0))), d),
                      lambda t: Call("vec_new", targs=[t]))
    F["ref"] = Former("ref", TRef, lambda x, t, key: Call("ref", x), lambda c, k, d, t: k(Call("ref_get", c)))
    F["array"] = Former("array", lambda t: TArray(2, t), lambda x, t, key: Array(x, x), lambda c, k, d, t: k(Call("array_get", c, Int(1))))
    F["tuple"] = Former("tuple", lambda t: TTuple(t, t), lambda x, t, key: Tuple(x, x), lambda c, k, d, t: k(Proj(c, 1)))
    F["tuple-mixed"] = Former("tuple-mixed", lambda t: TTuple(INT32, t), lambda x, t, key: Tuple(Int(4), x), lambda c, k, d, t: k(Proj(c, 1)))
    # a function type: the value is a top-level function `konst_<key>` returning the sample value
    F["fn"] = Former("fn", lambda t: TFn([], t), lambda x, t, key: FnRef("konst_" + key), lambda c, k, d, t: k(CallV(c)), konst=lambda x, t, key: (t, x))
    F["struct"] = Former("struct", box, lambda x, t, key: Struct(box(t), [("v", x)]), lambda c, k, d, t: k(Field(c, "v")))
    F["enum"] = Former("enum", opt, lambda x, t, key: Ctor(opt(t), "Som", x),
                       lambda c, k, d, t: Match(c, [(PCtor("Som", PVar("y")), k(Var("y"))), (PCtor("Non"), d)]), lambda t: Ctor(opt(t), "Non"))
    F["rec-enum"] = Former("rec-enum", lambda t: TAdt("List", t), lambda x, t, key: Ctor(TAdt("List", t), "Cons", x, Ctor(TAdt("List", t), "Nil")),
                           lambda c, k, d, t: Match(c, [(PCtor("Cons", PVar("h"), PWild), k(Var("h"))), (PCtor("Nil"), d)]), lambda t: Ctor(TAdt("List", t), "Nil"))
    return F


def compose(fo, fi):
    """F o G: fo[fi[T]]; element variables of the two eliminations are kept apart by binding the inner container first"""
    def elim(c, k, d, t):
        v = "inner_" + fi.name.replace("-", "_")
        # the inner container is bound with its type written out (the typer does not project / dispatch on a type it has yet to infer)
        return fo.elim(c, lambda y: Block([Let(v, y, ty=fi.ty(t))], fi.elim(Var(v), k, d, t)), d, fi.ty(t))
    empty = None
    if fo.empty is not None:
        empty = lambda t: fo.empty(fi.ty(t))
    elif fi.empty is not None and not fo.needs_konst:
        empty = lambda t: fo.build(fi.empty(t), fi.ty(t), None)
    if fo.needs_konst:
        if fi.needs_konst:
            return None
        # the function value is a top-level function returning the inner container
        return Former(fo.name + "-of-" + fi.name, lambda t: fo.ty(fi.ty(t)), lambda x, t, key: fo.build(None, fi.ty(t), key), elim, empty,
                      konst=lambda x, t, key: (fi.ty(t), fi.build(x, t, key)))
    return Former(fo.name + "-of-" + fi.name, lambda t: fo.ty(fi.ty(t)), lambda x, t, key: fo.build(fi.build(x, t, key), fi.ty(t), key), elim, empty, konst=fi.konst)


UNDER_POSITIONS = ["param", "param-and-fn", "result", "bound", "chain", "chain-bound"]


def under_program(fm, pos, a, b, cat, name):
    """one generic function whose parameter T occurs only under `fm`, instantiated at the catalogue types a and b"""
    p = Program(name)
    prelude(p)
    Tp = TParam("T")
    FT = fm.ty(Tp)
    (ta, va, sa), (tb, vb, sb) = cat[a], cat[b]
    if fm.needs_konst:
        for key, t, v in ((a, ta, va[0]), (b, tb, vb[0])) if a != b else ((a, ta, va[0]),):
            kt, kb = fm.konst(v, t, key)
            p.fn("konst_" + key, [], kt, kb)
    # probe: takes an element out (typed T inside the body) and answers with a number; the instance does not show in the result
    # (the element goes to a generic `sink`, so that the local of type T is live)
    p.fn("sink", [("u", TParam("U"))], INT32, Int(1), gens=["U"])
    el = lambda y, use: Block([Let("el", y, ty=Tp)], use(Var("el")))
    probe = lambda: p.fn("probe", [("c", FT)], INT32, fm.elim(Var("c"), lambda y: el(y, lambda z: Call("sink", z, targs=[Tp])), Int(0), Tp), gens=["T"])
    show_in = lambda: p.fn("show_in", [("c", FT)], STRING, fm.elim(Var("c"), lambda y: el(y, lambda z: TCall("Show", "show", z)), Str("-"), Tp), gens=[("T", ["Show"])])
    ba, bb = fm.build(va[0], ta, a), fm.build(vb[0], tb, b)
    if pos == "param":
        probe()
        stmts = [Let("ca", ba, ty=fm.ty(ta)), Let("cb", bb, ty=fm.ty(tb)), println(show_int(Call("probe", Var("ca"), targs=[ta]))), println(show_int(Call("probe", Var("cb"), targs=[tb])))]
    elif pos == "param-and-fn":
        # T under the former and under a function type: the element is shown by the function that comes with it
        p.fn("sh_" + a, [("x", ta)], STRING, sa(Var("x")))
        if b != a:
            p.fn("sh_" + b, [("x", tb)], STRING, sb(Var("x")))
        p.fn("describe", [("c", FT), ("sh", TFn([Tp], STRING))], STRING, fm.elim(Var("c"), lambda y: el(y, lambda z: CallV(Var("sh"), z)), Str("-"), Tp), gens=["T"])
        stmts = [Let("ca", ba, ty=fm.ty(ta)), Let("cb", bb, ty=fm.ty(tb)),
                 println(Call("describe", Var("ca"), FnRef("sh_" + a), targs=[ta])), println(Call("describe", Var("cb"), FnRef("sh_" + b), targs=[tb]))]
    elif pos == "result":
        # T occurs in the result type only; the empty containers of both instances are then inspected and (for Vec) filled
        probe()
        p.fn("empty", [], FT, fm.empty(Tp), gens=["T"])
        stmts = [Let("ea", Call("empty", targs=[ta]), ty=fm.ty(ta)), Let("eb", Call("empty", targs=[tb]), ty=fm.ty(tb)),
                 println(show_int(Call("probe", Var("ea"), targs=[ta]))), println(show_int(Call("probe", Var("eb"), targs=[tb])))]
        if fm.name == "vec":
            stmts += [Let("fa", Call("vec_push", Var("ea"), va[0]), ty=fm.ty(ta)), Let("fb", Call("vec_push", Var("eb"), vb[0]), ty=fm.ty(tb)),
                      Let("ga", Call("vec_get", Var("fa"), Int(0)), ty=ta), Let("gb", Call("vec_get", Var("fb"), Int(0)), ty=tb), println(sa(Var("ga"))), println(sb(Var("gb")))]
    elif pos == "bound":
        show_in()
        stmts = [Let("ca", ba, ty=fm.ty(ta)), Let("cb", bb, ty=fm.ty(tb)), println(Call("show_in", Var("ca"), targs=[ta])), println(Call("show_in", Var("cb"), targs=[tb]))]
    elif pos == "chain":
        # reached through a generic function in whose signature T is bare
        probe()
        p.fn("via", [("x", Tp)], INT32, Block([Let("c", fm.build(Var("x"), Tp, None), ty=FT)], Call("probe", Var("c"), targs=[Tp])), gens=["T"])
        stmts = [println(show_int(Call("via", va[0], targs=[ta]))), println(show_int(Call("via", vb[0], targs=[tb])))]
    elif pos == "chain-bound":
        show_in()
        p.fn("via_show", [("x", Tp)], STRING, Block([Let("c", fm.build(Var("x"), Tp, None), ty=FT)], Call("show_in", Var("c"), targs=[Tp])), gens=[("T", ["Show"])])
        stmts = [println(Call("via_show", va[0], targs=[ta])), println(Call("via_show", vb[0], targs=[tb]))]
    else:
        raise ValueError(pos)
    p.fn("main", [], UNIT, Block(stmts, Unit))
    return p


def under_programs(tier, cat):
    F = formers()
    names = list(F)
    fms = [F[n] for n in names]
    # compositions: every former once outside and once inside (quick); all ordered pairs (thorough)
    if tier == "quick":
        fms += [compose(F[names[i]], F[names[(i + 1) % len(names)]]) for i in range(len(names))]
    else:
        fms += [compose(F[o], F[i]) for o in names for i in names]
    fms = [f for f in fms if f is not None]
    showable = ["int32", "string", "bool", "S", "boxi", "boxs", "optb"]
    anyty = ["int32", "string", "bool", "tup", "S", "E", "arr", "ref", "boxi", "optb", "int8", "unit", "vec", "fn"]
    out, idx = [], 0
    for fi, fm in enumerate(fms):
        for pi, pos in enumerate(UNDER_POSITIONS):
            if pos == "result" and fm.empty is None:
                continue
            if pos in ("chain", "chain-bound") and fm.needs_konst:
                continue        # a value of type () -> T cannot be made from x: T without a closure
            if tier == "quick" and (fi + pi) % (3 if "-of-" in fm.name else 2):
                continue        # quick: three of the six positions for each former, two for each composed former (rotating)
            pool = showable if pos in ("bound", "chain-bound") else anyty
            npairs = 1 if tier == "quick" or "-of-" in fm.name else 2
            for j in range(npairs):
                a = pool[(fi + pi + j) % len(pool)]
                b = pool[(fi + pi + j + 1 + j) % len(pool)]
                idx += 1
                out.append({"prog": under_program(fm, pos, a, b, cat, f"c07_under_{idx}"), "family": "c07-under", "ident": f"c07:under={fm.name}:pos={pos}:{a},{b}"})
    return out


# ---------------------------------------------------------------- polymorphic recursion (Mono.tla: Diverged / Refuse)
# (name, source, infinite): the instance closure of the program is infinite (every instance asks for a larger one) or finite.
# An infinite closure cannot be compiled: the compiler has to say so in bounded time; a finite one must be accepted.
def polyrec_programs():
    main = "fn main() -> unit {{\n    let _ = string_println(int32_to_string({call}));\n    ()\n}}\n"
    P = []
    P.append(("grow-by-tuple", "fn f[T](x: T, n: int32) -> int32 {\n    if n == 0 { 0 } else { f((x, x), n - 1) }\n}\n" + main.format(call="f(1, 3)"), True))
    P.append(("grow-by-ref", "fn f[T](x: T, n: int32) -> int32 {\n    if n == 0 { 0 } else { f(ref(x), n - 1) }\n}\n" + main.format(call="f(true, 2)"), True))
    P.append(("grow-by-vec", "fn f[T](x: T, n: int32) -> int32 {\n    if n == 0 { 0 } else { let v: Vec[T] = vec_new(); f(vec_push(v, x), n - 1) }\n}\n" + main.format(call='f("s", 2)'), True))
    P.append(("grow-by-array", "fn f[T](x: T, n: int32) -> int32 {\n    if n == 0 { 0 } else { f([x, x], n - 1) }\n}\n" + main.format(call="f(1, 2)"), True))
    P.append(("grow-by-closure", "fn f[T](x: T, n: int32) -> int32 {\n    if n == 0 { 0 } else { f(|u: int32| x, n - 1) }\n}\n" + main.format(call="f(1, 2)"), True))
    P.append(("mutual", "fn a[T](x: T, n: int32) -> int32 {\n    if n == 0 { 0 } else { b((x, 1), n - 1) }\n}\nfn b[U](u: U, n: int32) -> int32 {\n    a(u, n)\n}\n"
              + main.format(call="a(1, 3)"), True))
    P.append(("grow-in-second-parameter", "fn f[A, B](x: A, y: B, n: int32) -> int32 {\n    if n == 0 { 0 } else { f(x, (y, x), n - 1) }\n}\n" + main.format(call="f(1, true, 2)"), True))
    P.append(("enum-nests-itself", "enum Nested[T] { Leaf(T), Node(Nested[(T, T)]) }\nfn main() -> unit {\n    let x: Nested[int32] = Nested::Leaf(1);\n"
              "    let _ = match x { Nested::Leaf(k) => string_println(int32_to_string(k)), Nested::Node(_) => string_println(\"node\") };\n    ()\n}\n", True))
    P.append(("enum-chain-of-vecs", "enum Chain[T] { End, Link(T, Chain[Vec[T]]) }\nfn main() -> unit {\n    let c: Chain[int32] = Chain::End;\n"
              "    let _ = match c { Chain::End => string_println(\"end\"), Chain::Link(_, _) => string_println(\"link\") };\n    ()\n}\n", True))
    P.append(("struct-nests-itself", "enum Opt[T] { Non, Som(T) }\nstruct Deep[T] { v: T, next: Opt[Deep[Ref[T]]] }\nfn main() -> unit {\n    let d: Deep[int32] = Deep { v: 1, next: Opt::Non };\n"
              "    let _ = string_println(int32_to_string(d.v));\n    ()\n}\n", True))
    # finite closures
    P.append(("same-type-recursion", "fn f[T](x: T, n: int32) -> int32 {\n    if n == 0 { 0 } else { 1 + f(x, n - 1) }\n}\n" + main.format(call="f((1, true), 3)"), False))
    P.append(("one-step-growth", "fn p[T](x: T) -> int32 {\n    q(ref(x))\n}\nfn q[U](u: U) -> int32 {\n    7\n}\n" + main.format(call="p(1) + p(true)"), False))
    P.append(("resets-to-a-constant-type", "fn r[T](x: T, n: int32) -> int32 {\n    if n == 0 { 0 } else { 1 + r(1, n - 1) }\n}\n" + main.format(call='r("s", 3)'), False))
    P.append(("three-explicit-levels", "fn s3[T](x: T) -> int32 {\n    s2((x, x))\n}\nfn s2[T](x: T) -> int32 {\n    s1((x, x))\n}\nfn s1[T](x: T) -> int32 {\n    5\n}\n" + main.format(call="s3(1)"), False))
    P.append(("regular-recursive-type", "enum List[T] { Nil, Cons(T, List[T]) }\nfn len[T](l: List[T]) -> int32 {\n    match l { List::Nil => 0, List::Cons(_, t) => 1 + len(t) }\n}\n"
              "fn main() -> unit {\n    let l: List[(int32, bool)] = List::Cons((1, true), List::Nil);\n    let _ = string_println(int32_to_string(len(l)));\n    ()\n}\n", False))
    P.append(("swaps-parameters", "fn w[A, B](x: A, y: B, n: int32) -> int32 {\n    if n == 0 { 0 } else { 1 + w(y, x, n - 1) }\n}\n" + main.format(call="w(1, true, 4)"), False))
    return P
