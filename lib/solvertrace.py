"""Trace validation of the type checker's constraint loop (typer/unify.rs, Typer::solve) against spec/Solver.tla through
spec/SolverTrace.tla: every round the real solver ran must be a round of the model - deferred constraints only disappear, new
TypeEquals come only from resolved Overloaded constraints, and a round that reports a change makes the measure
M = 2 * (overloaded + field accesses) + type equalities strictly smaller, which is why the loop terminates (C04)."""
import os, threading
from common import *


def validate(cases, rep, name, ident=lambda c: c.get("ident", c["id"]), limit_ms=20000):
    """cases: [{id, path | text+dir}]; programs whose compilation does not end in the time bound are left to the caller"""
    need_feature("hooks")
    reqs = []
    for c in cases:
        r = {"id": str(c["id"]), "trace": ["solver"]}
        if "text" in c:
            r.update(text=c["text"], dir=c["dir"])
        else:
            r["path"] = c["path"]
        reqs.append(r)
    answers = gv_robust("compile", reqs, extra=["--limit-ms", str(limit_ms)])
    recs, by = [], {}
    for c, a in zip(cases, answers):
        evs = [e for e in a.get("trace", []) if e.get("ev") in ("solve_start", "solve_round")]
        if not evs:
            continue
        recs.append([{"ev": "reset", "id": str(c["id"])}] + [{k: e[k] for k in e} for e in evs])
        by[str(c["id"])] = c
    if not recs:
        return {"programs": 0}
    shards = min(NCPU, max(1, len(recs) // 60))
    d = workdir(f"solver-{name}-{os.getpid()}")
    chunks = [recs[i::shards] for i in range(shards)]
    results = [None] * shards

    def go(i):
        path = os.path.join(d, f"s{i}.ndjson")
        write_lines(path, [e for r in chunks[i] for e in r])
        try:
            results[i] = run_tlc("SolverTrace", "SolverTrace.cfg", env={"SOLVER": path}, workers=1, xmx="3g", timeout=1200, xss="256m", name=f"solver-{name}-{i}")
        except ToolError as e:
            results[i] = e
    ths = [threading.Thread(target=go, args=(i,)) for i in range(shards)]
    [t.start() for t in ths]
    [t.join() for t in ths]
    stats = {"programs": len(recs), "solver_calls": 0, "rounds": sum(1 for r in recs for e in r if e["ev"] == "solve_round"),
             "rounds_reporting_a_change": sum(1 for r in recs for e in r if e["ev"] == "solve_round" and e["changed"]),
             "calls_that_end_with_pending_constraints": 0, "states": 0}
    for r in recs:
        for j, e in enumerate(r):
            if e["ev"] == "solve_round" and not e["changed"] and e["eq"] + e["over"] + e["field"] > 0:
                stats["calls_that_end_with_pending_constraints"] += 1
    for i, r in enumerate(results):
        if isinstance(r, Exception):
            raise r
        if r.rc != 0:
            raise ToolError(f"TLC SolverTrace shard {i} failed rc={r.rc}: " + (r.error or r.stdout[-1500:]))
        flat = [e for x in chunks[i] for e in x]
        done = r.json_prints("SOLVERDONE")
        if not done or done[0]["events"] != len(flat):
            raise ToolError("SolverTrace: the trace was not consumed to its end")
        stats["solver_calls"] += done[0]["calls"]
        stats["states"] += r.distinct
        for rj in r.json_prints("SOLVERREJECT"):
            at = rj["at"] - 1
            pid = next((flat[j]["id"] for j in range(at, -1, -1) if flat[j]["ev"] == "reset"), None)
            c = by.get(pid, {})
            why = "round-claims-change-without-progress" if rj["ev"].get("ev") == "solve_round" and rj["ev"].get("changed") else "round-not-a-round-of-the-model"
            rep.violation(f"{ident(c)}:solver:{why}", {"event": rj["ev"], "before": {k: rj[k] for k in ("eq", "over", "field", "changed", "running")}, "source": c.get("text", c.get("path"))})
    return stats
