"""Evaluation order as a static relation between the Lift and ANF terms of every accepted program (spec/IREffects.tla through
spec/IREffectsCheck.tla): A-normalisation names intermediate results and must leave the effect skeleton of every function
(calls, operations that can fail, go, with && / || / if / match / while structure) exactly as it was."""
import collections, os
from concurrent.futures import ThreadPoolExecutor
from common import *
import c03, irsem


def kind(a):
    for p in ("call:", "dyncall:", "traitcall:"):
        if a.startswith(p):
            return p[:-1]
    return a


def classify(d):
    pre, post = collections.Counter(d["before"]), collections.Counter(d["after"])
    struct = {"if(", "match(", "while(", "|", ")"}
    lost = sorted({kind(a) for a in (pre - post) if a not in struct})
    extra = sorted({kind(a) for a in (post - pre) if a not in struct})
    if not lost and not extra:
        a = [x for x in d["before"] if x not in struct]
        b = [x for x in d["after"] if x not in struct]
        return "reordered" if a != b else "moved-across-a-branch"
    return "+".join((["lost:" + "+".join(lost)] if lost else []) + (["added:" + "+".join(extra)] if extra else []))


def run(items, name):
    """items: [(id, ir as exported by gv compile ir_json)] -> ({id: report}, states, skipped ids)"""
    d = workdir(name)
    ready, skipped = [], []
    for i, ir in items:
        p = irsem.prep(ir)
        q = {st: {"fns": p[st]["fns"], "env": {"funcs": {k: {} for k in ir[st]["env"]["funcs"]}}} for st in ("lift", "anf")}
        if c03.depth(q) > 240:
            skipped.append(i)
            continue
        ready.append((i, q))
    chunks = [ready[k:k + 60] for k in range(0, len(ready), 60)]
    files = []
    for k, ch in enumerate(chunks):
        f = f"{d}/ir{k}.ndjson"
        write_lines(f, [{"id": i, "ir": ir} for i, ir in ch])
        files.append(f)

    def one(k):
        c = run_tlc("IREffectsCheck", "IREffectsCheck.cfg", env={"IRFILE": files[k]}, workers=1, xmx="3g", timeout=3000, xss="1g", name=f"{name}-{k}")
        if c.rc != 0:
            raise ToolError(f"IREffectsCheck failed on chunk {k}: " + (c.error or c.stdout[-1500:]))
        done = c.json_prints("ORDERDONE")
        if not done or done[0]["n"] != len(chunks[k]):
            raise ToolError("IREffectsCheck did not read the whole chunk")
        return c
    out, states = {}, 0
    with ThreadPoolExecutor(max_workers=12) as ex:
        for c in ex.map(one, range(len(chunks))):
            states += c.distinct or 0
            for r in c.json_prints("ORDER"):
                out[r["id"]] = r
    for f in files:
        os.remove(f)
    return out, states, skipped


def validate(items, rep, name, ident_of):
    """items: [(id, ir)]; ident_of: id -> identity prefix; reports <ident>:anf-order:<class>"""
    out, states, skipped = run(items, name)
    stats = {"programs": len(out), "functions": 0, "effect_atoms": 0, "skipped_too_deep": len(skipped), "states": states}
    for i, r in out.items():
        stats["functions"] += r["nfuncs"]
        stats["effect_atoms"] += r["natoms"]
        for d in r["diffs"]:
            rep.violation(f"{ident_of(i)}:anf-order:{classify(d)}", {"function": d["fn"], "lift_effects": d["before"][:60], "anf_effects": d["after"][:60]})
    return stats
