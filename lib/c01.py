"""C01 — emitted Go behaves exactly as the source program denotes.

(a) corpus: the repository's recorded programs are re-compiled and the *fresh* Go is executed by GoSem.tla; its output
    must equal the output recorded from real Go (this restores offline the oracle the repository's own suite loses
    without a Go toolchain);
(b) every enumerated family (C06-C10, C17-C19 templates) and seeded random type-directed programs: outcome of
    GoSem(emitted Go) must equal outcome of GomlSem(source) — stdout bytes and normal/failed termination."""
import glob, os
from common import *
import corpus, engine, famcheck, families, gopipe, gohoist

LEVEL = "translation_validation"
# corpus programs whose recorded .out is not the stdout of a successful run
RECORDED_FAILURE = {"025_missing_match": "failed"}
RECORDED_GO_REJECT = {"058_lowercase_constructors"}


def normalise_recording(b):
    """The recorded outputs predate the `fix:` of float*_to_string (%d -> %v): real Go printed `%!d(float32=3.5)`, whose
    payload 3.5 is exactly what %v prints.  Comparing against the payload keeps the recording usable as an oracle."""
    import re
    return re.sub(rb"%!d\(float(?:32|64)=([^)]*)\)", rb"\1", b)


def calibrate():
    """GoSem on the *recorded* .go files must reproduce the recorded outputs; otherwise my Go semantics is wrong (exit 2).
    The pairs (Go text, output of real Go) are facts about Go and live in /verif/calibration (see the README there); the pairs
    the repository holds now are run as well, and those that no longer belong together are only reported."""
    recs = []
    pinned = {}
    for d in sorted(glob.glob(os.path.join(VERIF, "calibration", "*"))):
        n = os.path.basename(d)
        if not os.path.isdir(d) or n in RECORDED_GO_REJECT:
            continue
        go, out = open(os.path.join(d, "main.go")).read(), open(os.path.join(d, "main.out"), "rb").read()
        pinned[n] = (go, out)
        rec, err = gopipe.go_record(n, go, out)
        if err:
            raise ToolError(f"calibration: recorded {n} does not parse: {err}")
        rec["ast"] = gohoist.hoist(rec["ast"])
        recs.append(rec)
    extra = []
    for c in corpus.single_file_cases():
        if not c["go"] or not c["out"] or c["name"] in RECORDED_GO_REJECT:
            continue
        go, out = open(c["go"]).read(), open(c["out"], "rb").read()
        if pinned.get(c["name"]) == (go, out):
            continue
        rec, err = gopipe.go_record("repo:" + c["name"], go, out)
        if err:
            extra.append((c["name"], "does not parse: " + err))
            continue
        rec["ast"] = gohoist.hoist(rec["ast"])
        recs.append(rec)
    res, st = gopipe.run_sharded("GoSem", "GoSem.cfg", recs, extra_env={"MAXSTEPS": 60000}, name="c01-cal")
    agree = 0
    for n, r in res.items():
        if n.startswith("repo:"):
            if not ((n[5:] in RECORDED_FAILURE and r["status"] == "failed") or (r["status"] == "ok" and r["agree"]) or r["status"] in ("unsupported", "inconclusive")):
                extra.append((n[5:], "the repository's current main.gom.go does not reproduce its main.gom.out"))
            continue
        if n in RECORDED_FAILURE:
            if r["status"] != "failed":
                raise ToolError(f"calibration: {n} should fail at run time, GoSem says {r['status']}")
            agree += 1
        elif r["status"] == "ok":
            if not r["agree"]:
                raise ToolError(f"calibration: GoSem output differs from the recorded real-Go output for {n}")
            agree += 1
        elif r["status"] == "failed":
            raise ToolError(f"calibration: GoSem fails on recorded {n}: {r['why']}")
    return agree, len(pinned), st, extra


def run(tier, rep):
    build_harness()
    agree, ncal, st0, cal_extra = calibrate()
    # ---- (a) fresh Go of the corpus vs recorded outputs
    cases = []
    for c in corpus.single_file_cases() + corpus.package_cases():
        if c["out"] is None or c["name"] in RECORDED_GO_REJECT:
            continue
        cases.append({"id": "corpus:" + c["name"], "path": c["src"], "family": "corpus", "name": c["name"],
                      "expect_out": normalise_recording(open(c["out"], "rb").read())})
    st = engine.evaluate(cases, static=False, sem=True, maxsteps=60000, name="c01-corpus")
    ok = unsup = 0
    for c in cases:
        if c["compile"]["verdict"] != "ok":
            rep.violation(f"{c['id']}:not-compiled", {"verdict": c["compile"]["verdict"], "diags": c["compile"].get("diags", [])[:3], "msg": c["compile"].get("msg")})
            continue
        g = c["sem"]
        if g is None or g["status"] in ("unsupported", "inconclusive"):
            unsup += 1
            continue
        if c["name"] in RECORDED_FAILURE:
            if g["status"] != "failed":
                rep.violation(f"{c['id']}:should-fail", {"go_status": g["status"], "out": g["out"].decode("utf-8", "replace")[:300]})
            else:
                ok += 1
        elif g["status"] != "ok" or g["out"] != c["expect_out"]:
            rep.violation(f"{c['id']}:output", {"go_status": g["status"], "why": g["why"],
                                                "expected": c["expect_out"].decode("utf-8", "replace")[:400], "got": g["out"].decode("utf-8", "replace")[:400]},
                          replay={"path": c["path"]})
        else:
            ok += 1
    rep.coverage.update({"corpus_programs": len(cases), "corpus_agree": ok, "corpus_unsupported": unsup,
                         "calibration_agree": agree, "calibration_files": ncal,
                         "repository_recordings_changed_and_not_reproduced": [f"{n}: {w}" for n, w in cal_extra]})
    if ok < 60:
        raise ToolError(f"vacuity: only {ok} corpus programs reproduced")
    # ---- (b) families + random
    progs = families.all_families(tier, seed())
    fam_cases, counts = famcheck.run_families("C01", rep, progs, "c01")
    # ---- (c) pass by pass: the Core, Mono, Lift and ANF terms of every accepted program mean what the program means (IRSem.tla)
    import irsem
    todo = {}
    expect = {}
    for c in cases:
        if c["compile"]["verdict"] == "ok":
            todo[c["id"]] = c["path"]
            expect[c["id"]] = ("failed" if c["name"] in RECORDED_FAILURE else "ok", None if c["name"] in RECORDED_FAILURE else c["expect_out"], c["id"])
    for c in fam_cases:
        o = c.get("oracle")
        if c["compile"]["verdict"] == "ok" and o and o["status"] in ("ok", "failed"):
            todo["fam:" + c["id"]] = c["path"]
            expect["fam:" + c["id"]] = (o["status"], o["out"], c["ident"])
    answers = gv_parallel("compile", [{"id": i, "path": p, "ir_json": True} for i, p in todo.items()])
    stage_out, st3, skipped = irsem.run_stages([(a["id"], a["ir"]) for a in answers if a["verdict"] == "ok"], "c01-irsem")
    stage_counts = {}
    for i, stages in stage_out.items():
        status, out, ident = expect[i]
        for stg in irsem.STAGES:
            r = stages[stg]
            if r["status"] in ("unsupported", "inconclusive"):
                key = "outside-modelled-subset"
            elif r["status"] == status and (out is None or r["out"] == out):
                key = "agree"
            else:
                key = "differ"
                rep.violation(f"ir:{stg}:{ident}", {"stage": stg, "expected_status": status, "expected_out": (out or b"").decode("utf-8", "replace")[:400],
                                                    "stage_status": r["status"], "stage_why": r["why"], "stage_out": r["out"].decode("utf-8", "replace")[:400]},
                              replay={"path": todo[i], "stage": stg})
            stage_counts[stg + ":" + key] = stage_counts.get(stg + ":" + key, 0) + 1
    rep.coverage["ir_stage_outcomes"] = stage_counts
    # ---- (c') static pass relations on every path of every function of the same programs: A-normalisation keeps the order of
    # effects (IREffects.tla: Lift vs ANF), dead-code elimination keeps every effect (Dce.tla: Go before / after the pass)
    import passes
    pst = passes.validate([{"id": i, "path": p, "ident": expect[i][2]} for i, p in todo.items()], rep, "c01", answers=answers)
    rep.coverage["pass_relations"] = pst
    if pst["dce"]["programs"] < 300 or pst["anf_order"]["programs"] < 300:
        raise ToolError(f"vacuity: pass relations evaluated on too few programs: {pst}")
    rep.coverage["ir_programs_too_deep_for_json_reader"] = skipped
    if stage_counts.get("mono:agree", 0) < 300 or stage_counts.get("anf:agree", 0) < 300:
        raise ToolError(f"vacuity: IR stages agreed on too few programs: {stage_counts}")
    # ---- (d) the web playground's own pipeline (crates/wasm-app, compile_to_go): for every accepted single-file program its Go
    # must be the Go of the compile path, or else mean the same (GoSem against the program's expected outcome)
    wtodo = [(i, p) for i, p in todo.items() if i in expect and (i.startswith("fam:") or i.startswith("corpus:")) and os.path.basename(os.path.dirname(p)) != ""]
    wtodo = [(i, p) for i, p in wtodo if len([f for f in os.listdir(os.path.dirname(p)) if f.endswith(".gom")]) == 1]
    wres = gv_robust("web", [{"id": i, "text": open(p, encoding="utf-8").read(), "fns": ["compile_to_go"]} for i, p in wtodo])
    pgo = {a["id"]: a.get("go") for a in gv_parallel("compile", [{"id": i, "path": p} for i, p in wtodo])}
    web_counts = {"identical": 0, "rejected-by-the-playground": 0, "different-text": 0, "different-text-same-meaning": 0}
    wrecs = []
    for (i, p), r in zip(wtodo, wres):
        o = (r.get("out") or {}).get("compile_to_go", {})
        status, out, ident = expect[i]
        if r.get("fatal") or r.get("verdict") == "abort" or "panic" in o:
            rep.violation(f"playground:panic:{ident}", {"at": r.get("at") or o.get("panic"), "msg": r.get("msg") or o.get("msg")}, replay={"path": p})
        elif o.get("ok", "").startswith("error"):
            web_counts["rejected-by-the-playground"] += 1          # e.g. imports: not a statement about accepted programs
        elif o.get("ok") == pgo.get(i):
            web_counts["identical"] += 1
        else:
            web_counts["different-text"] += 1
            rec, err = gopipe.go_record("web:" + i, o["ok"], out if status == "ok" else None)
            if err:
                rep.violation(f"playground:go-does-not-parse:{ident}", {"error": err, "go": o["ok"][-800:]}, replay={"path": p})
                continue
            rec["ast"] = gohoist.hoist(rec["ast"])
            wrecs.append((rec, i))
    if wrecs:
        wsem, st4 = gopipe.run_sharded("GoSem", "GoSem.cfg", [r_ for r_, _ in wrecs], extra_env={"MAXSTEPS": 60000}, name="c01-web")
        for rec, i in wrecs:
            status, out, ident = expect[i]
            g = wsem.get(rec["name"])
            if g is None or g["status"] in ("unsupported", "inconclusive"):
                continue
            if g["status"] != status or (status == "ok" and not g["agree"]):
                rep.violation(f"playground:output:{ident}", {"expected_status": status, "go_status": g["status"], "why": g.get("why")}, replay={"path": todo[i]})
            else:
                web_counts["different-text-same-meaning"] += 1
    rep.coverage["playground_go"] = web_counts
    if web_counts["identical"] + web_counts["different-text-same-meaning"] < 300:
        raise ToolError(f"vacuity: playground Go compared for too few programs: {web_counts}")
    rep.coverage["states"] += st3
    rep.coverage["programs"] += len(cases)
    rep.coverage["disagreements_checked"] += ok
    rep.coverage["states"] += st["states"] + st0["states"]
    rep.coverage["transitions"] += st["transitions"] + st0["transitions"]
    rep.assumptions += famcheck.STD_ASSUMPTIONS
