"""Shared plumbing for /verif/check: build, TLC driver, evidence, known findings, violation reporting."""
import sys as _sys; _sys.setrecursionlimit(50000)
import json, os, re, subprocess, sys, time, shutil, hashlib, random

VERIF = os.path.dirname(os.path.dirname(os.path.abspath(__file__)))
REPO = os.environ.get("GOML_REPO", "/repo")
SPEC = os.path.join(VERIF, "spec")
ALT = REPO != "/repo"          # seeded-change evaluation: another checkout of goml, own work/evidence/harness copy
WORK = os.environ.get("VERIF_WORK") or (os.path.join(VERIF, "work") if not ALT else "/tmp/verif-work-" + hashlib.md5(REPO.encode()).hexdigest()[:8])
EVID = os.path.join(VERIF, "evidence") if not ALT else os.path.join(WORK, "evidence")
HARNESS = os.path.join(VERIF, "harness") if not ALT else os.path.join(WORK, "harness")
GV = os.path.join(HARNESS, "target", "debug", "gv")
CLI_TARGET = os.path.join(WORK, "cli-target")
CLI = os.path.join(CLI_TARGET, "debug", "compiler")
TLA_CP = "/opt/veriftools/tla/tla2tools.jar:/opt/veriftools/tla/CommunityModules-deps.jar"
CORPUS = os.path.join(REPO, "crates/compiler/src/tests/pipeline")
PKG_CORPUS = os.path.join(REPO, "crates/compiler/src/tests/package")
NCPU = os.cpu_count() or 4


class ToolError(Exception):
    """Raised for failures of the machinery itself (exit 2), never for property violations."""


def seed():
    try:
        return int(os.environ.get("VERIF_SEED", "0"))
    except ValueError:
        return 0


def log(*a):
    print(*a, file=sys.stderr, flush=True)


def workdir(name, clean=True):
    d = os.path.join(WORK, name)
    if clean and os.path.exists(d):
        shutil.rmtree(d, ignore_errors=True)
    os.makedirs(d, exist_ok=True)
    return d


# ----------------------------------------------------------------------------------------- building
_built = {}


def build_harness():
    """Build gv from /repo's current working tree (hooks on: --cfg goml_verif via harness/.cargo/config.toml)."""
    if _built.get("gv"):
        return GV
    if ALT:
        src = os.path.join(VERIF, "harness")
        os.makedirs(os.path.join(HARNESS, "src"), exist_ok=True)
        os.makedirs(os.path.join(HARNESS, ".cargo"), exist_ok=True)
        for f in os.listdir(os.path.join(src, "src")):
            shutil.copy(os.path.join(src, "src", f), os.path.join(HARNESS, "src", f))
        shutil.copy(os.path.join(src, ".cargo", "config.toml"), os.path.join(HARNESS, ".cargo", "config.toml"))
        open(os.path.join(HARNESS, "Cargo.toml"), "w").write(open(os.path.join(src, "Cargo.toml")).read().replace("/repo/", REPO.rstrip("/") + "/"))
    lock = os.path.join(HARNESS, "Cargo.lock")
    if not os.path.exists(lock):
        shutil.copy(os.path.join(REPO, "Cargo.lock"), lock)
    t0 = time.time()
    env = dict(os.environ, CARGO_NET_OFFLINE="true")
    # The sub-commands that reach into the compiler's internals are cargo features of the harness.  When an internal
    # interface changed and one of them no longer compiles, the harness is built without it: the checks that need it
    # stop with a tool error that says so, the others run.
    all_feats = sorted(set(HARNESS_FEATURES.values()))
    feats = list(all_feats)
    missing = {}
    for _ in range(len(all_feats) + 1):
        cmd = ["cargo", "build", "--offline", "--quiet"]
        if len(feats) != len(all_feats):
            cmd += ["--no-default-features", "--features", ",".join(feats)]
        r = subprocess.run(cmd, cwd=HARNESS, env=env, stdout=subprocess.PIPE, stderr=subprocess.STDOUT, text=True)
        if r.returncode == 0:
            break
        bad = {}
        for m in re.finditer(r"^(error[^\n]*)\n\s*--> src/(\w+)\.rs:(\d+)", r.stdout, re.M):
            f = HARNESS_FEATURES.get(m.group(2))
            if f is None:
                raise ToolError("harness build failed (the /repo tree does not compile with the harness):\n" + r.stdout[-4000:])
            bad.setdefault(f, f"{m.group(1)} (harness/src/{m.group(2)}.rs:{m.group(3)})")
        bad = {f: w for f, w in bad.items() if f in feats}
        if not bad:
            raise ToolError("harness build failed (the /repo tree does not compile with the harness):\n" + r.stdout[-4000:])
        missing.update(bad)
        feats = [f for f in feats if f not in bad]
    else:
        raise ToolError("harness build failed:\n" + r.stdout[-4000:])
    _built["missing"] = missing
    log(f"[build] harness ok in {time.time()-t0:.1f}s" + (f" WITHOUT {sorted(missing)}" if missing else ""))
    _built["gv"] = True
    return GV


# source file of the harness -> cargo feature
HARNESS_FEATURES = {"ir_export": "ir", "names_cmd": "names", "query_cmd": "query", "hir_cmd": "hir", "ast_export": "asttrees", "web_cmd": "web", "trace_hooks": "hooks"}


def _need_for(cmd, requests):
    if cmd in ("names", "query", "hir", "web"):
        need_feature(cmd)
    elif cmd == "parse" and any(r.get("mode", "ast") == "ast" for r in requests[:50]):
        need_feature("asttrees")
    elif cmd == "compile" and any(r.get("ir_json") for r in requests[:50]):
        need_feature("ir")


def need_feature(f):
    """tool error (exit 2) when the harness had to be built without feature f"""
    w = _built.get("missing", {}).get(f)
    if w:
        raise ToolError(f"the harness sub-command behind feature `{f}` does not compile against this tree (an internal interface of the compiler changed): {w}")


def build_cli():
    """Build the goml CLI binary from /repo's working tree into /verif/work/cli-target (hooks on)."""
    if _built.get("cli"):
        return CLI
    t0 = time.time()
    env = dict(os.environ, CARGO_NET_OFFLINE="true",
               RUSTFLAGS="--cfg goml_verif --check-cfg cfg(goml_verif)")
    r = subprocess.run(["cargo", "build", "--offline", "--quiet", "-p", "compiler", "--bin", "compiler",
                        "--target-dir", CLI_TARGET], cwd=REPO, env=env,
                       stdout=subprocess.PIPE, stderr=subprocess.STDOUT, text=True)
    if r.returncode != 0:
        raise ToolError("CLI build failed:\n" + r.stdout[-4000:])
    log(f"[build] cli ok in {time.time()-t0:.1f}s")
    _built["cli"] = True
    return CLI


def gv(cmd, requests, extra=(), timeout=3600):
    """Run one gv sub-command over a list of request dicts; returns list of answer dicts (same order)."""
    build_harness()
    _need_for(cmd, requests)
    inp = "\n".join(json.dumps(r) for r in requests) + "\n"
    r = subprocess.run([GV, cmd, *extra], input=inp, stdout=subprocess.PIPE, stderr=subprocess.PIPE,
                       text=True, timeout=timeout)
    if r.returncode != 0:
        raise ToolError(f"gv {cmd} exited {r.returncode}: {r.stderr[-2000:]}")
    out = [json.loads(l) for l in r.stdout.splitlines() if l.strip()]
    if len(out) != len(requests):
        raise ToolError(f"gv {cmd}: {len(requests)} requests but {len(out)} answers; stderr: {r.stderr[-1000:]}")
    return out


def gv_parallel(cmd, requests, extra=(), shards=None, timeout=3600):
    """Shard requests over processes (a crash of one shard is a tool error, panics are data)."""
    build_harness()
    _need_for(cmd, requests)
    shards = shards or min(NCPU, max(1, len(requests) // 50))
    if shards <= 1:
        return gv(cmd, requests, extra, timeout)
    chunks = [requests[i::shards] for i in range(shards)]
    procs = []
    for ch in chunks:
        p = subprocess.Popen([GV, cmd, *extra], stdin=subprocess.PIPE, stdout=subprocess.PIPE,
                             stderr=subprocess.PIPE, text=True)
        procs.append(p)
    import threading
    results = [None] * shards

    def feed(i):
        inp = "\n".join(json.dumps(r) for r in chunks[i]) + "\n"
        o, e = procs[i].communicate(inp, timeout=timeout)
        results[i] = (procs[i].returncode, o, e)

    ths = [threading.Thread(target=feed, args=(i,)) for i in range(shards)]
    [t.start() for t in ths]
    [t.join() for t in ths]
    out = [None] * len(requests)
    for i, (rc, o, e) in enumerate(results):
        if rc != 0:
            raise ToolError(f"gv {cmd} shard {i} exited {rc}: {e[-2000:]}")
        lines = [json.loads(l) for l in o.splitlines() if l.strip()]
        if len(lines) != len(chunks[i]):
            raise ToolError(f"gv {cmd} shard {i}: answers {len(lines)} != requests {len(chunks[i])}")
        for k, a in enumerate(lines):
            out[i + k * shards] = a
    return out


def gv_robust(cmd, requests, extra=(), shards=None, timeout=3600, mem_gb=3):
    """Like gv_parallel, but the death of a harness process is data: each process runs under an address-space limit; when
    one dies (allocation failure -> abort, stack overflow, kill), the request it was working on gets the verdict "abort"
    and the remaining requests of the shard continue in a fresh process."""
    build_harness()
    _need_for(cmd, requests)
    import resource, threading
    shards = shards or min(NCPU, max(1, len(requests) // 50))
    chunks = [requests[i::shards] for i in range(shards)]
    results = [None] * shards

    def limit():
        resource.setrlimit(resource.RLIMIT_AS, (mem_gb << 30, mem_gb << 30))

    def feed(i):
        todo = list(chunks[i])
        answers = []
        while todo:
            p = subprocess.Popen([GV, cmd, *extra], stdin=subprocess.PIPE, stdout=subprocess.PIPE, stderr=subprocess.PIPE, text=True, preexec_fn=limit)
            try:
                o, e = p.communicate("\n".join(json.dumps(r) for r in todo) + "\n", timeout=timeout)
            except subprocess.TimeoutExpired:
                p.kill()
                o, e = p.communicate()
            lines = []
            for l in o.splitlines():
                try:
                    lines.append(json.loads(l))
                except ValueError:
                    break          # a line cut off by the death of the process
            answers += lines
            if len(lines) >= len(todo) and p.returncode == 0:
                break
            if len(lines) >= len(todo):
                break
            culprit = todo[len(lines)]
            answers.append({"id": culprit.get("id"), "verdict": "abort", "msg": f"harness process died (exit status {p.returncode}) while working on this request: " + e[-300:],
                            "at": "process death (status %s)" % p.returncode})
            todo = todo[len(lines) + 1:]
        results[i] = answers

    ths = [threading.Thread(target=feed, args=(i,)) for i in range(shards)]
    [t.start() for t in ths]
    [t.join() for t in ths]
    out = [None] * len(requests)
    for i, answers in enumerate(results):
        if answers is None or len(answers) != len(chunks[i]):
            raise ToolError(f"gv {cmd} shard {i}: answers {0 if answers is None else len(answers)} != requests {len(chunks[i])}")
        for k, a in enumerate(answers):
            out[i + k * shards] = a
    return out


# ----------------------------------------------------------------------------------------- TLC
class TlcResult:
    def __init__(self):
        self.rc = None
        self.stdout = ""
        self.generated = 0
        self.distinct = 0
        self.depth = 0
        self.wall = 0.0
        self.coverage = {}     # action/operator name -> count
        self.prints = []       # values printed via PrintT (raw strings)
        self.violated = None   # name of violated invariant / property, if any
        self.error = None
        self.trace = []        # counterexample states (raw text blocks)

    def json_prints(self, tag=None):
        """PrintT(ToJson(x)) prints a quoted, escaped JSON string; PrintT(<<"TAG", ToJson(x)>>) a tuple."""
        out = []
        for p in self.prints:
            p = p.strip()
            if tag is not None:
                m = re.match(r'^<<"%s", (".*")>>$' % re.escape(tag), p, re.S)
                if not m:
                    continue
                p = m.group(1)
            if p.startswith('"'):
                try:
                    out.append(json.loads(tla_unquote(p)))
                except Exception:
                    pass
        return out


def tla_unquote(s):
    """TLC prints strings with \\" and \\\\ escapes only."""
    assert s[0] == '"' and s[-1] == '"'
    body = s[1:-1]
    res = []
    i = 0
    while i < len(body):
        c = body[i]
        if c == "\\" and i + 1 < len(body):
            n = body[i + 1]
            if n == "n":
                res.append("\n")
            elif n == "t":
                res.append("\t")
            else:
                res.append(n)
            i += 2
        else:
            res.append(c)
            i += 1
    return "".join(res)


def run_tlc(module, cfg=None, env=None, workers=1, xmx="2g", timeout=900, simulate=None, depth=None,
            coverage=False, deque=False, xss=None, extra=(), name=None, cwd=None, seed_=None, dfid=None):
    """Run TLC on spec/<module>.tla with spec/<cfg>. Returns TlcResult. Raises ToolError on timeouts / parse errors."""
    cwd = cwd or SPEC
    cfg = cfg or (module + ".cfg")
    name = name or (module + "-" + os.path.splitext(os.path.basename(cfg))[0])
    meta = os.path.join(WORK, "tlc", name + "-" + str(os.getpid()))
    shutil.rmtree(meta, ignore_errors=True)
    os.makedirs(meta, exist_ok=True)
    jopts = []
    if xss:
        jopts.append("-Xss" + xss)
    if deque:
        jopts.append("-Dtlc2.tool.queue.IStateQueue=StateDeque")
    cmd = ["java", "-XX:+UseParallelGC", "-Xmx" + xmx, *jopts, "-cp", TLA_CP, "tlc2.TLC",
           "-workers", str(workers), "-metadir", meta, "-cleanup", "-noGenerateSpecTE",
           "-config", cfg]
    if coverage:
        cmd += ["-coverage", "1"]
    if simulate:
        cmd += ["-simulate", simulate]
        if seed_ is not None:
            cmd += ["-seed", str(seed_)]
    if depth:
        cmd += ["-depth", str(depth)]
    if dfid:
        cmd += ["-dfid", str(dfid)]
    cmd += list(extra)
    cmd += [module + ".tla"]
    e = dict(os.environ)
    e.pop("JAVA_TOOL_OPTIONS", None)
    if env:
        e.update({k: str(v) for k, v in env.items()})
    t0 = time.time()
    try:
        p = subprocess.run(cmd, cwd=cwd, env=e, stdout=subprocess.PIPE, stderr=subprocess.STDOUT, text=True,
                           timeout=timeout)
    except subprocess.TimeoutExpired as ex:
        shutil.rmtree(meta, ignore_errors=True)
        raise ToolError(f"TLC timeout after {timeout}s on {module}/{cfg}")
    shutil.rmtree(meta, ignore_errors=True)
    r = TlcResult()
    r.rc = p.returncode
    r.stdout = p.stdout
    r.wall = time.time() - t0
    parse_tlc_output(r)
    return r


_cov_re = re.compile(r"^<(\w+) line \d+, col \d+ to line \d+, col \d+ of module (\w+)(?: \([\d ]+\))?>: (\d+):(\d+)")


def parse_tlc_output(r):
    lines = r.stdout.splitlines()
    i = 0
    in_trace = False
    cur = None
    while i < len(lines):
        ln = lines[i]
        m = re.match(r"^(\d+) states generated, (\d+) distinct states found", ln)
        if m:
            r.generated = int(m.group(1))
            r.distinct = int(m.group(2))
        m = re.match(r"^The depth of the complete state graph search is (\d+)", ln)
        if m:
            r.depth = int(m.group(1))
        m = _cov_re.match(ln)
        if m:
            r.coverage[m.group(1)] = r.coverage.get(m.group(1), 0) + int(m.group(4))
        m = re.match(r"^Error: Invariant (\w+) is violated", ln)
        if m:
            r.violated = m.group(1)
        m = re.match(r"^Error: Action property (\w+) is violated", ln)
        if m:
            r.violated = m.group(1)
        if ln.startswith("Error: Temporal properties were violated"):
            r.violated = r.violated or "temporal"
        if ln.startswith("Error:") and r.error is None and r.violated is None:
            r.error = "\n".join(lines[i:i + 12])
        if ln.startswith("State ") and re.match(r"^State \d+:", ln):
            cur = [ln]
            r.trace.append(cur)
        elif cur is not None:
            if ln.strip() == "":
                cur = None
            else:
                cur.append(ln)
        # PrintT output: lines not matching TLC's own chatter that start with " or <<
        s = ln.strip()
        if cur is None and (s.startswith('"') or s.startswith("<<") or s.startswith("[")) and not ln.startswith("State"):
            r.prints.append(s)
        i += 1
    r.trace = ["\n".join(t) for t in r.trace]


def tlc_ok(r, what):
    """TLC finished without error (rc 0). Anything else that is not an invariant violation is a tool error."""
    if r.rc == 0:
        return True
    if r.violated:
        return False
    raise ToolError(f"TLC failed on {what} (rc={r.rc}):\n" + (r.error or r.stdout[-3000:]))


def sany(module):
    p = subprocess.run(["java", "-cp", TLA_CP, "tla2sany.SANY", module + ".tla"], cwd=SPEC,
                       stdout=subprocess.PIPE, stderr=subprocess.STDOUT, text=True)
    return p.returncode == 0 and "Semantic errors" not in p.stdout and "Parse Error" not in p.stdout, p.stdout


# ----------------------------------------------------------------------------------------- findings
def load_findings():
    p = os.path.join(VERIF, "known_findings.json")
    if not os.path.exists(p):
        return []
    return json.load(open(p))["findings"]


class Report:
    """Collects violations for one property run; classifies against known_findings.json; writes evidence."""

    def __init__(self, pid, tier, level):
        self.pid = pid
        self.tier = tier
        self.level = level
        self.t0 = time.time()
        self.findings = [f for f in load_findings() if f["property"] == pid and f.get("status", "open") == "open"]
        self.known_hit = {}      # finding id -> list of witnesses
        self.violations = []     # (identity, detail, replay_path), first witness per identity
        self.viol_count = {}
        self.coverage = {}
        self.assumptions = []
        self.samples = []
        self.notes = {}

    def match_known(self, identity):
        for f in self.findings:
            pat = f["identity"]
            if pat == identity or (f.get("regex") and re.fullmatch(pat, identity)):
                return f
        return None

    def violation(self, identity, detail, replay=None):
        """identity: stable handle of the failing case (see known_findings.json)."""
        f = self.match_known(identity)
        if f is not None:
            self.known_hit.setdefault(f["id"], []).append(identity)
            return False
        self.viol_count[identity] = self.viol_count.get(identity, 0) + 1
        if self.viol_count[identity] > 1:
            return True
        path = self.write_replay(identity, detail, replay)
        self.violations.append((identity, detail, path))
        return True

    def write_replay(self, identity, detail, replay):
        d = os.path.join(WORK, "replay", self.pid)
        os.makedirs(d, exist_ok=True)
        h = hashlib.sha1(identity.encode()).hexdigest()[:12]
        path = os.path.join(d, f"{h}.json")
        with open(path, "w") as f:
            json.dump({"property": self.pid, "identity": identity, "detail": detail, "replay": replay}, f, indent=1)
        return path

    def sample(self, s, limit=6):
        if len(self.samples) < limit:
            self.samples.append(s)

    def finish(self, extra_cov=None):
        cov = dict(self.coverage)
        if extra_cov:
            cov.update(extra_cov)
        cov.setdefault("samples", self.samples if self.samples else ["(none)"])
        cov["known_findings_hit"] = {k: len(v) for k, v in self.known_hit.items()}
        ev = {
            "property_id": self.pid,
            "tier": self.tier,
            "seed": seed(),
            "level": self.level,
            "coverage": cov,
            "assumptions": self.assumptions,
            "wall_s": round(time.time() - self.t0, 2),
            "violations": len(self.violations),
            "violation_identities": {k: v for k, v in self.viol_count.items()},
        }
        if self.notes:
            ev["notes"] = self.notes
        os.makedirs(EVID, exist_ok=True)
        with open(os.path.join(EVID, self.pid + ".json"), "w") as f:
            json.dump(ev, f, indent=1, default=str)
        for f in self.findings:
            if f["id"] in self.known_hit:
                print(f"KNOWN-FINDING: property={self.pid} {f['id']}: {f['summary']} "
                      f"({len(self.known_hit[f['id']])} witnesses this run)")
        if self.violations:
            for identity, detail, path in self.violations[:20]:
                print(f"VIOLATION property={self.pid} replay={path}")
                log(f"  identity={identity}\n  detail={str(detail)[:600]}")
            return 1
        return 0


def write_lines(path, objs):
    with open(path, "w") as f:
        for o in objs:
            f.write(json.dumps(o) + "\n")


def rng(extra=0):
    return random.Random(seed() * 1000003 + extra)
