"""C06 family: pattern matrices enumerated by spec/MatchSem.tla (TLC) turned into goml programs.

Every matrix is compiled as `fn f(v: T) { match v { row_i => println("<i>:" + shown bindings) } }` and called on every value of
the scrutinee type (values no row matches last: the program must fail exactly there).  Three results must coincide:
MatchSem's FirstMatch (declarative), GomlSem (source machine) and GoSem on the compiler's decision tree."""
import json
from common import *
from gast import *

E2, E3, S_, S2_ = TAdt("E2"), TAdt("E3"), TAdt("S"), TAdt("S2")
MB, ME, MU = TAdt("M", BOOL), TAdt("M", E2), TAdt("M", UNIT)


def gty(t):
    k = t["k"]
    if k == "bool":
        return BOOL
    if k == "int":
        return INT32
    if k == "str":
        return STRING
    if k == "unit":
        return UNIT
    if k == "tuple":
        return TTuple(*[gty(x) for x in t["ts"]])
    if k == "enum":
        return {"E2": E2, "E3": E3, "M_bool": MB, "M_E2": ME, "M_unit": MU}[t["n"]]
    if k == "struct":
        return S2_ if t["n"] == "S2" else S_
    raise ValueError(k)


VARIANTS = {"E2": [("P", []), ("Q", [{"k": "bool"}])],
            "E3": [("A", []), ("B", [{"k": "bool"}]), ("C", [{"k": "bool"}, {"k": "enum", "n": "E2"}])],
            "M_bool": [("None", []), ("Some", [{"k": "bool"}])],
            "M_E2": [("None", []), ("Some", [{"k": "enum", "n": "E2"}])],
            "M_unit": [("None", []), ("Some", [{"k": "unit"}])]}
FIELDS_OF = {"S": [("x", {"k": "bool"}), ("y", {"k": "enum", "n": "E2"})], "S2": [("p", {"k": "bool"}), ("q", {"k": "bool"})]}
SCRUT = {"bb": {"k": "tuple", "ts": [{"k": "bool"}, {"k": "bool"}]}, "e3": {"k": "enum", "n": "E3"},
         "e2b": {"k": "tuple", "ts": [{"k": "enum", "n": "E2"}, {"k": "bool"}]}, "i": {"k": "int"},
         "ib": {"k": "tuple", "ts": [{"k": "int"}, {"k": "bool"}]}, "s": {"k": "str"},
         "sb": {"k": "tuple", "ts": [{"k": "str"}, {"k": "bool"}]}, "st": {"k": "struct", "n": "S"},
         "st2": {"k": "struct", "n": "S2"}, "st2b": {"k": "tuple", "ts": [{"k": "struct", "n": "S2"}, {"k": "bool"}]},
         "mb": {"k": "enum", "n": "M_bool"}, "me": {"k": "enum", "n": "M_E2"},
         "bbb": {"k": "tuple", "ts": [{"k": "tuple", "ts": [{"k": "bool"}, {"k": "bool"}]}, {"k": "bool"}]},
         "e3e2": {"k": "tuple", "ts": [{"k": "enum", "n": "E3"}, {"k": "enum", "n": "E2"}]},
         "ub": {"k": "tuple", "ts": [{"k": "unit"}, {"k": "bool"}]}, "mu": {"k": "enum", "n": "M_unit"},
         "mub": {"k": "tuple", "ts": [{"k": "enum", "n": "M_unit"}, {"k": "bool"}]}}


def variant_types(en, v):
    return dict(VARIANTS[en])[v]


def gpat(p, t, names):
    """JSON pattern of MatchSem + its type -> GAST pattern; appends (name, type) of variables in written order"""
    k = p["k"]
    if k == "w":
        return PWild
    if k == "v":
        x = f"b{len(names) + 1}"
        names.append((x, t))
        return PVar(x)
    if k == "b":
        return PBool(p["v"])
    if k == "i":
        return PInt(p["v"])
    if k == "s":
        return PStr(p["v"])
    if k == "u":
        return PUnit
    if k == "t":
        return PTuple(*[gpat(q, t["ts"][i], names) for i, q in enumerate(p["ps"])])
    if k == "c":
        ts = variant_types(t["n"], p["v"])
        return PCtor(p["v"], *[gpat(q, ts[i], names) for i, q in enumerate(p["ps"])])
    if k == "st":
        fs = []
        for idx in p["order"]:
            f, ft = FIELDS_OF[p["n"]][idx - 1]
            fs.append((f, gpat(p["ps"][idx - 1], ft, names)))
        return PStruct(p["n"], fs)
    raise ValueError(k)


def gval(v, t):
    k = v["k"]
    if k == "bool":
        return Bool(v["v"])
    if k == "int":
        return Int(v["v"])
    if k == "str":
        return Str(v["v"])
    if k == "unit":
        return Unit
    if k == "tuple":
        return Tuple(*[gval(x, t["ts"][i]) for i, x in enumerate(v["es"])])
    if k == "variant":
        ts = variant_types(t["n"], v["v"])
        return Ctor(gty(t), v["v"], *[gval(x, ts[i]) for i, x in enumerate(v["as"])])
    if k == "struct":
        F_ = FIELDS_OF[v["n"]]
        return Struct(gty(t), [(F_[i][0], gval(x, F_[i][1])) for i, x in enumerate(v["fs"])])
    raise ValueError(k)


def shown(v, t):
    """the string the show_* helpers print for value v (python side, used for the MatchSem expectation)"""
    k = v["k"]
    if k == "bool":
        return "true" if v["v"] else "false"
    if k == "int":
        return str(v["v"])
    if k == "str":
        return v["v"]
    if k == "unit":
        return "()"
    if k == "tuple":
        return "(" + ",".join(shown(x, t["ts"][i]) for i, x in enumerate(v["es"])) + ")"
    if k == "variant":
        ts = variant_types(t["n"], v["v"])
        return v["v"] + ("(" + ",".join(shown(x, ts[i]) for i, x in enumerate(v["as"])) + ")" if v["as"] else "")
    if k == "struct":
        return v["n"] + "{" + ",".join(shown(x, FIELDS_OF[v["n"]][i][1]) for i, x in enumerate(v["fs"])) + "}"


def tname(t):
    k = t["k"]
    if k in ("bool", "int", "str", "unit"):
        return k
    if k == "tuple":
        return "t_" + "_".join(tname(x) for x in t["ts"])
    return t["n"]


def show_expr(e, t, need):
    """GAST expression rendering e : t as a string; records helper functions needed"""
    k = t["k"]
    if k == "bool":
        return Call("bool_to_string", e)
    if k == "int":
        return Call("int32_to_string", e)
    if k == "str":
        return e
    if k == "unit":
        return Str("()")
    need.append(t)
    return Call("show_" + tname(t), e)


def add_show_fn(p, t, done):
    n = tname(t)
    if n in done or t["k"] in ("bool", "int", "str", "unit"):
        return
    done.add(n)
    need = []
    if t["k"] == "tuple":
        parts = [Str("(")]
        for i, x in enumerate(t["ts"]):
            if i:
                parts.append(Str(","))
            parts.append(show_expr(Proj(Var("v"), i), x, need))
        parts.append(Str(")"))
    elif t["k"] == "struct":
        F_ = FIELDS_OF[t["n"]]
        parts = [Str(t["n"] + "{"), show_expr(Field(Var("v"), F_[0][0]), F_[0][1], need), Str(","), show_expr(Field(Var("v"), F_[1][0]), F_[1][1], need), Str("}")]
    else:
        arms = []
        for vn, ts in VARIANTS[t["n"]]:
            ps = [PVar(f"a{i}") for i in range(len(ts))]
            parts = [Str(vn + ("(" if ts else ""))]
            for i, x in enumerate(ts):
                if i:
                    parts.append(Str(","))
                parts.append(show_expr(Var(f"a{i}"), x, need))
            if ts:
                parts.append(Str(")"))
            arms.append((PCtor(vn, *ps), concat(parts)))
        p.fn("show_" + n, [("v", gty(t))], STRING, Match(Var("v"), arms))
        for x in need:
            add_show_fn(p, x, done)
        return
    p.fn("show_" + n, [("v", gty(t))], STRING, concat(parts))
    for x in need:
        add_show_fn(p, x, done)


def concat(parts):
    e = parts[0]
    for x in parts[1:]:
        e = Bin("+", e, x)
    return e


def matrix_program(m, idx, variant="unit"):
    t = SCRUT[m["ty"]]
    p = Program(f"c06_{variant}_{idx}")
    p.enum("E2", [("P", []), ("Q", [BOOL])])
    p.enum("E3", [("A", []), ("B", [BOOL]), ("C", [BOOL, E2])])
    p.enum("M", [("None", []), ("Some", [TParam("T")])], gens=["T"])
    p.struct("S", [("x", BOOL), ("y", E2)])
    p.struct("S2", [("p", BOOL), ("q", BOOL)])
    done = set()
    arms = []
    expected_lines = {}
    for i, row in enumerate(m["rows"]):
        names = []
        gp = gpat(row, t, names)
        need = []
        parts = [Str(f"{i + 1}:")]
        for j, (x, xt) in enumerate(names):
            if j:
                parts.append(Str(","))
            parts.append(show_expr(Var(x), xt, need))
        for x in need:
            add_show_fn(p, x, done)
        body = concat(parts)
        if variant == "quiet" and not irrefutable(row):
            arms.append((gp, Unit))          # only the catch-all rows do something observable
        else:
            arms.append((gp, body if variant == "string" else Call("string_println", body)))
    # values: matching ones first (in TLC's order), then the ones no row matches
    cases = sorted(m["cases"], key=lambda c: c["res"]["arm"] == 0)
    exp = []
    failed = False
    row_var_types = []
    for row in m["rows"]:
        names = []
        gpat(row, t, names)
        row_var_types.append([xt for _, xt in names])
    calls = []
    for c in cases:
        arm = c["res"]["arm"]
        ve = gval(c["val"], t)
        calls.append(Do(Call("string_println", Call("f", ve))) if variant == "string" else Do(Call("f", ve)))
        if failed:
            continue
        if arm == 0:
            failed = True
            continue
        exp.append(f"{arm}:" + ",".join(shown(b, row_var_types[arm - 1][j]) for j, b in enumerate(c["res"]["binds"])))
    if variant == "let":
        names = []
        gp = gpat(m["rows"][0], t, names)
        need = []
        parts = [Str("1:")]
        for j, (x, xt) in enumerate(names):
            if j:
                parts.append(Str(","))
            parts.append(show_expr(Var(x), xt, need))
        for x in need:
            add_show_fn(p, x, done)
        p.fn("f", [("v", gty(t))], UNIT, Block([Let(gp, Var("v")), Do(Call("string_println", concat(parts)))], Unit))
    elif variant == "quiet":
        # the value of the match is discarded and only its catch-all rows have an effect
        p.fn("f", [("v", gty(t))], UNIT, Block([Do(Match(Var("v"), arms)), Do(Call("string_println", Str("after")))], Unit))
    elif variant == "loop":
        # the match is the last thing in a loop body: its value is not used, only its effects (statement position)
        p.fn("f", [("v", gty(t))], UNIT, Block([
            Let("once", Call("ref", Int(0))),
            Stmt(While(Bin("<", Call("ref_get", Var("once")), Int(1)),
                       Block([Do(Call("ref_set", Var("once"), Int(1)))], Match(Var("v"), arms)))),
        ], Unit))
    else:
        p.fn("f", [("v", gty(t))], STRING if variant == "string" else UNIT, Match(Var("v"), arms))
    p.fn("main", [], UNIT, Block(calls, Unit))
    return p, "".join(l + "\n" for l in exp), ("failed" if failed else "ok")


def has_var(p):
    return p["k"] == "v" or any(has_var(q) for q in p.get("ps", []))


def row_matches_first(m, c):
    """does the first row of matrix m match the value of case c?  (MatchSem reported the first matching arm of the full matrix)"""
    return c["res"]["arm"] == 1


def irrefutable(p):
    return p["k"] in ("w", "v") or (p["k"] in ("t", "st") and all(irrefutable(q) for q in p["ps"]))


def matrices(tier, seed_):
    n = 260 if tier == "quick" else 6000
    out = []
    k = 0
    while len(out) < n and k < 40:
        r = run_tlc("MCMatchSem", "MatchSem_sim.cfg", workers=1, simulate=f"num={min(2500, n * 2)}", depth=8, timeout=1200,
                    seed_=seed_ * 31 + k + 1, xss="256m", xmx="3g", name=f"matchsem-sim{k}")
        if r.rc != 0:
            raise ToolError("MatchSem simulation failed: " + (r.violated or r.error or r.stdout[-1500:]))
        seen = {json.dumps(m["rows"]) + m["ty"] for m in out}
        for m in r.json_prints("MATRIX"):
            key = json.dumps(m["rows"]) + m["ty"]
            if key not in seen:
                seen.add(key)
                out.append(m)
        k += 1
    out = out[:n]
    # the literal grid, enumerated exhaustively by TLC (see MCMatchSem.tla)
    g = run_tlc("MCMatchSem", "MatchSem_grid.cfg" if tier == "quick" else "MatchSem_grid_t.cfg", workers=4, xmx="6g", timeout=1200, name="matchsem-grid")
    if g.rc != 0:
        raise ToolError("MatchSem grid enumeration failed: " + (g.violated or g.error or g.stdout[-1500:]))
    # (TLC with several workers prints the states in scheduling order: sorted, so that the sub-sampling below, the positions `#i` in the
    # identities of the cases and with them `--replay` are the same on every run of one seed)
    canon = lambda ms: sorted(ms, key=lambda m: json.dumps(m, sort_keys=True))
    grid = canon(g.json_prints("MATRIX"))
    # the same over scrutinees with a unit column (the unit under a constructor, next to a bool): `()` rows, `_` rows, constructor rows
    gu = run_tlc("MCMatchSem", "MatchSem_unitgrid.cfg", workers=4, xmx="6g", timeout=1200, name="matchsem-unitgrid")
    if gu.rc != 0:
        raise ToolError("MatchSem unit grid enumeration failed: " + (gu.violated or gu.error or gu.stdout[-1500:]))
    ug = canon(gu.json_prints("MATRIX"))
    if len(ug) < 100:
        raise ToolError("MatchSem unit grid enumeration emitted too few matrices")
    if tier == "quick":
        ug = [m for j, m in enumerate(ug) if m["ty"] == "ub" or j % 2 == 0]
    grid = grid + ug
    if len(grid) < 200:
        raise ToolError("MatchSem grid enumeration emitted too few matrices")
    seen = {json.dumps(m["rows"]) + m["ty"] for m in out}
    for m in grid:
        if json.dumps(m["rows"]) + m["ty"] not in seen:
            out.append(m)
    return out


_cache = {}


def programs(tier):
    if tier in _cache:
        return _cache[tier]
    ms = matrices(tier, seed())
    out = []
    for i, m in enumerate(ms):
        exhaustive = all(c["res"]["arm"] != 0 for c in m["cases"])
        shape = f"{m['ty']}:rows={len(m['rows'])}:{'exh' if exhaustive else 'nonexh'}"
        prog, exp, st = matrix_program(m, i, "unit")
        out.append({"prog": prog, "family": "c06:match", "ident": f"c06:match:{shape}:#{i}", "matrix": m, "matchsem_out": exp, "matchsem_status": st})
        if exhaustive and i % 3 == 0:
            prog, exp, st = matrix_program(m, i, "string")
            out.append({"prog": prog, "family": "c06:match-value", "ident": f"c06:match-value:{shape}:#{i}", "matrix": m,
                        "matchsem_out": "".join(l + "\n" for l in exp.splitlines()), "matchsem_status": st})
        if any(irrefutable(r) for r in m["rows"]) and not irrefutable(m["rows"][0]) and i % 3 == 1:
            prog, exp, st = matrix_program(m, i, "quiet")
            out.append({"prog": prog, "family": "c06:match-discarded-quiet-arms", "ident": f"c06:match-discarded-quiet-arms:{shape}:#{i}", "matrix": m, "matchsem_out": None, "matchsem_status": None})
        if i % 4 == 1:
            prog, exp, st = matrix_program(m, i, "loop")
            out.append({"prog": prog, "family": "c06:match-in-loop", "ident": f"c06:match-in-loop:{shape}:#{i}", "matrix": m, "matchsem_out": exp, "matchsem_status": st})
        if not irrefutable(m["rows"][0]) and m["rows"][0]["k"] in ("t", "st", "c") and i % 2 == 0:
            # a refutable pattern in a let: the values it matches go on, the first value it does not match ends the program there
            m1 = dict(m, rows=m["rows"][:1], cases=[dict(c, res=dict(c["res"], arm=1 if row_matches_first(m, c) else 0)) for c in m["cases"]])
            prog, exp, st = matrix_program(m1, i, "let")
            binds = "binds" if has_var(m["rows"][0]) else "binds-nothing"
            out.append({"prog": prog, "family": "c06:let-refutable", "ident": f"c06:let-refutable:{binds}:{m['ty']}:#{i}", "matrix": m1, "matchsem_out": None, "matchsem_status": None})
        if irrefutable(m["rows"][0]) and m["rows"][0]["k"] in ("t", "st"):
            m1 = dict(m, rows=m["rows"][:1], cases=[dict(c, res=dict(c["res"])) for c in m["cases"]])
            prog, exp, st = matrix_program(m1, i, "let")
            out.append({"prog": prog, "family": "c06:let", "ident": f"c06:let:{m['ty']}:#{i}", "matrix": m1, "matchsem_out": None, "matchsem_status": None})
    # matching the same variable again inside one of its arms (the arm narrows nothing in the source; in the emitted Go the
    # variable is rebound to the variant's struct by the outer type switch)
    p = Program("c06_rematch")
    p.enum("E2", [("P", []), ("Q", [BOOL])])
    inner = Match(Var("v"), [(PCtor("P"), Str("inner-P")), (PCtor("Q", PVar("c")), Bin("+", Str("inner-Q:"), Call("bool_to_string", Var("c"))))])
    p.fn("f", [("v", E2)], STRING, Match(Var("v"), [(PCtor("P"), Str("outer-P")), (PCtor("Q", PVar("b")), Bin("+", Bin("+", Call("bool_to_string", Var("b")), Str("/")), inner))]))
    p.fn("main", [], UNIT, Block([println(Call("f", Ctor(E2, "P"))), println(Call("f", Ctor(E2, "Q", Bool(True))))], Unit))
    out.append({"prog": p, "family": "c06:rematch", "ident": "c06:rematch-same-variable", "matrix": {"rows": [], "cases": []}, "matchsem_out": None, "matchsem_status": None})
    _cache[tier] = out
    return out
