"""Emitted-Go side of the pipeline: parse Go text (lib/goparse.py), run GoStatic.tla / GoSem.tla under TLC in shards."""
import json, os, subprocess, threading, time
from common import *
import goparse

BIG = 2 ** 31


def fix_ints(x):
    """TLC integers are 32-bit: int literals < 2^31 become JSON numbers, larger ones kind 'bigint' with decimal digits."""
    if isinstance(x, dict):
        if x.get("k") == "int" and isinstance(x.get("v"), str):
            v = int(x["v"])
            y = dict(x)
            if v < BIG:
                y["v"] = v
            else:
                y["k"] = "bigint"
                y["digits"] = [int(c) for c in str(v)]
                y["v"] = 0
            return y
        if x.get("k") == "float" and isinstance(x.get("v"), str):
            return dict(x, **float_parts(x["v"]))
        return {k: fix_ints(v) for k, v in x.items()}
    if isinstance(x, list):
        return [fix_ints(v) for v in x]
    return x


def float_parts(s):
    """decimal literal -> exact rational num/den when small enough for TLC, else flagged"""
    from fractions import Fraction
    try:
        f = Fraction(s)
    except Exception:
        return {"num": 0, "den": 1, "exact": False}
    if abs(f.numerator) < BIG and f.denominator < BIG:
        return {"num": f.numerator, "den": f.denominator, "exact": True}
    return {"num": 0, "den": 1, "exact": False}


def pkguse(x, acc):
    if isinstance(x, dict):
        if x.get("k") == "sel" and isinstance(x.get("e"), dict) and x["e"].get("k") == "id":
            acc.add(x["e"]["n"])
        if x.get("k") == "named" and "." in x.get("n", ""):
            acc.add(x["n"].split(".")[0])
        for v in x.values():
            pkguse(v, acc)
    elif isinstance(x, list):
        for v in x:
            pkguse(v, acc)
    return acc


def qualtypes(x, acc):
    """names of package-qualified types (time.Time) mentioned anywhere"""
    if isinstance(x, dict):
        if x.get("k") == "named" and "." in x.get("n", ""):
            acc.add(x["n"])
        for v in x.values():
            qualtypes(v, acc)
    elif isinstance(x, list):
        for v in x:
            qualtypes(v, acc)
    return acc


def go_record(name, go_text, expect=None, extra=None):
    """Returns (record, None) or (None, syntax_error_message)."""
    try:
        ast = fix_ints(goparse.parse(go_text))
    except goparse.GoSyntaxError as e:
        return None, str(e)
    except RecursionError:
        return None, "parser recursion limit"
    rec = {"name": name, "ast": ast, "expect": list(expect) if expect is not None else [], "hasexpect": expect is not None,
           "pkguse": sorted(pkguse(ast, set())), "qualtypes": sorted(qualtypes(ast, set()))}
    # the package every qualified type name is qualified with, and the names the imports bind (alias, else the last path segment)
    rec["qualpkgs"] = sorted({q.split(".")[0] for q in rec["qualtypes"]})
    rec["importnames"] = sorted({(i["alias"][0] if i.get("alias") else i["path"].rsplit("/", 1)[-1]) for i in ast.get("imports", [])})
    if extra:
        rec.update(extra)
    return rec, None


def run_sharded(module, cfg, records, envname="PROGS", shards=None, timeout=1800, xmx="3g", tag="REPORT", extra_env=None, name=None):
    """Split records over TLC processes (-workers 1 each); returns {record name: report dict}."""
    if not records:
        return {}, {"states": 0, "transitions": 0}
    shards = shards or min(NCPU, max(1, len(records) // 4))
    chunks = [records[i::shards] for i in range(shards)]
    d = workdir(f"tlcin-{name or module}-{os.getpid()}")
    results = [None] * shards

    def go(i):
        path = os.path.join(d, f"progs{i}.ndjson")
        write_lines(path, chunks[i])
        env = {envname: path}
        if extra_env:
            env.update(extra_env)
        try:
            results[i] = run_tlc(module, cfg, env=env, workers=1, xmx=xmx, timeout=timeout, xss="512m",
                                 name=f"{name or module}-s{i}")
        except ToolError as e:
            results[i] = e
    ths = [threading.Thread(target=go, args=(i,)) for i in range(shards)]
    [t.start() for t in ths]
    [t.join() for t in ths]
    out = {}
    stats = {"states": 0, "transitions": 0}
    for i, r in enumerate(results):
        if isinstance(r, Exception):
            raise r
        if r.rc != 0:
            raise ToolError(f"TLC {module} shard {i} failed rc={r.rc}: " + (r.error or r.stdout[-3000:]))
        stats["states"] += r.distinct
        stats["transitions"] += r.generated
        for rep in r.json_prints(tag):
            out[rep["name"]] = rep
    missing = [rec["name"] for rec in records if rec["name"] not in out]
    if missing:
        raise ToolError(f"TLC {module}: no report for {len(missing)} programs, e.g. {missing[:3]}")
    return out, stats
