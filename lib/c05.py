"""C05 — names resolve lexically.

spec/Scopes.tla writes every function-body skeleton (lets, uses, blocks, match arms, closures over a small name
set) together with the lexical resolution of every use; TLC checks on the model that the scope stack is lexical
(StackIsLexical, NoLeak) and that the implementation-shaped environment agrees when every block kind copies its
environment (ImplIsLexical; self-test: it must fail when only closures copy).  Every complete skeleton is
rendered to goml and pushed through the real AST->HIR lowering (gv hir): each use must resolve to the binder
the model names (by source position), unbound uses must be unresolved, and the full compiler must accept
well-scoped skeletons and reject the others with a diagnostic naming the identifier."""
import json, os
from common import *

PRELUDE = ("fn show(v: int32) -> int32 { let _ = string_println(int32_to_string(v)); v }\n"
           "fn f(p: int32) -> int32 {\n")
EPILOGUE = "    0\n}\nfn main() { let _ = f(1); () }\n"


# the skeleton as the body of the SECOND method of an impl block whose first method has parameters named like the skeleton's names
# (every function body starts from an empty local scope: nothing of `first` may be visible in `f`)
IMPL_PRELUDE = ("fn show(v: int32) -> int32 { let _ = string_println(int32_to_string(v)); v }\nstruct S { k: int32 }\nimpl S {\n"
                "    fn first(self: S, x: int32, y: int32) -> int32 { x + y }\n    fn f(self: S, p: int32) -> int32 {\n")
IMPL_EPILOGUE = "    0\n}\n}\nfn main() { let _ = S { k: 1 }.f(1); () }\n"
GLOBALS = "fn x(q: int32) -> int32 { q }\nfn y(q: int32) -> int32 { q }\n"


# a long function body in front of the skeleton: 40 more binders of one other name, each rebinding the previous one
MANY = "    let z = 0;\n" + "".join("    let z = z + %d;\n" % i for i in range(1, 40))


def render(toks, with_globals=False, many=False, callpos=False, in_impl=False):
    """returns text, uses [(offset, name, expected_binder_id)], binders {id: offset};
    with_globals: top-level functions named like the local names exist too (a local binder must still win);
    many: the skeleton comes after 40 other local binders (resolution must not depend on how many binders are in scope)"""
    pre = (GLOBALS if with_globals else "") + (IMPL_PRELUDE if in_impl else PRELUDE) + (MANY if many else "")
    out = [pre]
    pos = len(pre)
    uses, binders = [], {}
    binders[1] = pre.index("p: int32) -> int32 {\n", pre.index("fn f("))
    stack = []
    ind = 1

    def emit(s):
        nonlocal pos
        out.append(s)
        pos += len(s)

    for t in toks:
        pad = "    " * ind
        k = t["t"]
        if k == "let":
            emit(pad + "let ")
            binders[t["id"]] = pos
            emit(f"{t['x']} = {t['id']};\n")
        elif k == "use":
            emit(pad + "let _ = show(")
            uses.append((pos, t["x"], t["res"]))
            emit(f"{t['x']}(0));\n" if callpos else f"{t['x']});\n")
        elif k == "open":
            if t["k"] == "block":
                variant = ("then", "else", "while")[(len(out) + len(toks)) % 3]
                if variant == "then":
                    emit(pad + "let _ = if true {\n")
                elif variant == "else":
                    emit(pad + "let _ = if false { 0 } else {\n")
                else:
                    n = len(out)
                    emit(pad + f"let w{n} = ref(true);\n" + pad + f"while ref_get(w{n}) {{\n" + pad + f"    let _ = ref_set(w{n}, false);\n")
                stack.append((variant, None))
            elif t["k"] == "arm":
                emit(pad + f"let _ = match ({t['id']}, 0) {{ (")
                binders[t["id"]] = pos
                emit(f"{t['x']}, 0) => {{\n")
                stack.append(("arm", 1))
            else:
                emit(pad + f"let g{t['id']} = |")
                binders[t["id"]] = pos
                emit(f"{t['x']}: int32| {{\n")
                stack.append(("closure", t["id"]))
            ind += 1
        elif k == "arm":
            kind, n = stack.pop()
            pad = "    " * (ind - 1)
            emit(pad + "    0\n" + pad + "}, (")
            binders[t["id"]] = pos
            emit(f"{t['x']}, {n}) => {{\n")
            stack.append(("arm", n + 1))
        elif k == "close":
            kind, cid = stack.pop()
            ind -= 1
            pad = "    " * ind
            if kind == "then":
                emit(pad + "    0\n" + pad + "} else { 0 };\n")
            elif kind == "else":
                emit(pad + "    0\n" + pad + "};\n")
            elif kind == "while":
                emit(pad + "    ()\n" + pad + "};\n")
            elif kind == "arm":
                emit(pad + "    0\n" + pad + "}, (_, _) => { 0 } };\n")
            else:
                emit(pad + "    0\n" + pad + f"}};\n{pad}let _ = g{cid}({cid});\n")
    out.append(IMPL_EPILOGUE if in_impl else EPILOGUE)
    return "".join(out), uses, binders


def expected_output(toks):
    return "".join(f"{t['res']}\n" for t in toks if t["t"] == "use")


def canon(toks):
    return "|".join(f"{t['t'][:2]}{t['k'][:1]}{t['x']}" for t in toks)


def run(tier, rep):
    build_harness()
    cfg = "Scopes_q.cfg" if tier == "quick" else "Scopes_t.cfg"
    r = run_tlc("MCScopes", cfg, workers=8, xmx="12g", coverage=True, timeout=3000)
    if not tlc_ok(r, cfg):
        rep.violation(f"model:{cfg}:{r.violated}", {"trace": r.trace[-3:]})
    for a in ("Let", "Use", "Open", "Close"):
        if r.coverage.get(a, 0) == 0:
            raise ToolError(f"vacuity: Scopes action {a} never taken")
    r2 = run_tlc("MCScopes", "Scopes_leaky.cfg", workers=4, xmx="4g", timeout=900)
    if r2.violated != "ImplIsLexical":
        raise ToolError("model self-test: environment copied only for closures did not violate ImplIsLexical")
    progs = r.json_prints("PROG")
    if len(progs) < 1000:
        raise ToolError(f"only {len(progs)} skeletons emitted")
    # ---- replay every skeleton through the real lowering
    reqs, meta = [], []
    for i, toks in enumerate(progs):
        text, uses, binders = render(toks)
        reqs.append({"id": i, "text": text})
        meta.append((toks, text, uses, binders))
    answers = gv_parallel("hir", reqs, shards=NCPU)
    # ---- the same skeletons next to top-level functions x and y: a local binder in scope still wins; only uses the model
    # calls unbound may (and for x, y must) resolve to the top-level function
    greqs, gmeta = [], []
    for i, toks in enumerate(progs):
        text, uses, binders = render(toks, with_globals=True)
        greqs.append({"id": i, "text": text})
        gmeta.append((toks, text, uses, binders))
    ganswers = gv_parallel("hir", greqs, shards=NCPU)
    global_uses = 0
    for (toks, text, uses, binders), a in zip(gmeta, ganswers):
        if a["verdict"] != "ok":
            rep.violation(f"lowering-{a['verdict']}:with-globals", {"program": text, "answer": {k: a.get(k) for k in ('verdict', 'msg', 'at', 'diags')}}, replay={"toks": toks})
            continue
        real = {u["at"]: u for u in a["uses"] if u["x"] in ("x", "y", "p")}
        off2id = {off: bid for bid, off in binders.items()}
        hid2id = {}
        for b in a["binds"]:
            if b.get("at") is not None and b["at"] in off2id:
                hid2id[b["id"]] = off2id[b["at"]]
            elif b.get("fn") == "f" and b.get("index") == 0:
                hid2id[b["id"]] = 1
        for (off, name, exp) in uses:
            u = real.get(off)
            if u is None:
                rep.violation("use-not-found-in-hir:with-globals", {"program": text, "offset": off}, replay={"toks": toks})
                break
            global_uses += 1
            kinds = sorted({t["k"] for t in toks if t["t"] == "open"})
            if exp != 0:
                got = hid2id.get(u.get("id"), -1) if u["res"] == "local" else u["res"]
                if got != exp:
                    ident = ("resolution:top-level-function-beats-local-binder" if u["res"] == "global" else "resolution:wrong-binder:with-globals") + ":blocks=" + "+".join(kinds)
                    rep.violation(ident, {"program": text, "use": name, "offset": off, "expected_binder": exp, "got": got, "hir_use": u}, replay={"toks": toks})
                    break
            else:
                want = "global" if name in ("x", "y") else "unresolved"
                if u["res"] != want:
                    rep.violation(f"resolution:out-of-scope-use-resolves-to-{u['res']}:blocks=" + "+".join(kinds),
                                  {"program": text, "use": name, "offset": off, "expected": want, "hir_use": u}, replay={"toks": toks})
                    break
    # ---- two more renderings of every skeleton: (a) next to the top-level functions again, every use in CALL position `x(0)` - a
    # local in scope is the callee, whatever its type will turn out to be; (b) as the second method of an impl block whose first
    # method has parameters x and y - a use the model calls unbound stays unresolved
    extra_uses = 0
    for tag, kw in (("call-position", {"with_globals": True, "callpos": True}), ("second-method-of-impl", {"in_impl": True})):
        xreqs, xmeta = [], []
        for i, toks in enumerate(progs):
            text, uses, binders = render(toks, **kw)
            xreqs.append({"id": i, "text": text})
            xmeta.append((toks, text, uses, binders))
        for (toks, text, uses, binders), a in zip(xmeta, gv_parallel("hir", xreqs, shards=NCPU)):
            if a["verdict"] != "ok":
                rep.violation(f"lowering-{a['verdict']}:{tag}", {"program": text, "answer": {k: a.get(k) for k in ('verdict', 'msg', 'at', 'diags')}}, replay={"toks": toks})
                continue
            real = {u["at"]: u for u in a["uses"] if u["x"] in ("x", "y", "p")}
            off2id = {off: bid for bid, off in binders.items()}
            hid2id = {b["id"]: off2id[b["at"]] for b in a["binds"] if b.get("at") is not None and b["at"] in off2id}
            for b in a["binds"]:
                if b.get("fn") == "f" and b.get("index") == 0 and "in_impl" not in kw:
                    hid2id[b["id"]] = 1
            kinds = sorted({t["k"] for t in toks if t["t"] == "open"})
            for (off, name, exp) in uses:
                u = real.get(off)
                if u is None:
                    rep.violation(f"use-not-found-in-hir:{tag}", {"program": text, "offset": off}, replay={"toks": toks})
                    break
                extra_uses += 1
                if exp == 0:
                    want = "global" if ("with_globals" in kw and name in ("x", "y")) else "unresolved"
                    if u["res"] != want:
                        rep.violation(f"resolution:{tag}:out-of-scope-use-resolves-to-{u['res']}:blocks=" + "+".join(kinds),
                                      {"program": text, "use": name, "offset": off, "expected": want, "hir_use": u}, replay={"toks": toks})
                        break
                elif exp == 1 and "in_impl" in kw:
                    # the parameter p of the method (method parameters are not in the export's binder list): a local that is none of the binders with a position
                    if u["res"] != "local" or u.get("id") in hid2id:
                        rep.violation(f"resolution:{tag}:wrong-binder:blocks=" + "+".join(kinds), {"program": text, "use": name, "offset": off, "expected": "parameter p", "hir_use": u}, replay={"toks": toks})
                        break
                else:
                    got = hid2id.get(u.get("id"), -1) if u["res"] == "local" else u["res"]
                    if got != exp:
                        rep.violation(f"resolution:{tag}:" + ("top-level-function-beats-local-binder" if u["res"] == "global" else "wrong-binder") + ":blocks=" + "+".join(kinds),
                                      {"program": text, "use": name, "offset": off, "expected_binder": exp, "got": got, "hir_use": u}, replay={"toks": toks})
                        break
    rep.coverage["uses_checked_in_call_position_and_in_second_method"] = extra_uses
    # ---- and after 40 other binders in the same body
    mreqs, mmeta = [], []
    for i, toks in enumerate(progs):
        text, uses, binders = render(toks, many=True)
        mreqs.append({"id": i, "text": text})
        mmeta.append((toks, text, uses, binders))
    manswers = gv_parallel("hir", mreqs, shards=NCPU)
    shadowing = 0
    unbound_cases = 0
    checked_uses = 0
    for tag, (toks, text, uses, binders), a in [("", m_, a_) for m_, a_ in zip(meta, answers)] + [(":after-40-binders", m_, a_) for m_, a_ in zip(mmeta, manswers)]:
        cid = canon(toks)
        if a["verdict"] != "ok":
            rep.violation(f"lowering-{a['verdict']}{tag}", {"program": text, "answer": {k: a.get(k) for k in ('verdict', 'msg', 'at', 'diags')}}, replay={"toks": toks})
            continue
        real = {u["at"]: u for u in a["uses"] if u["x"] in ("x", "y", "p")}
        off2id = {off: bid for bid, off in binders.items()}
        # HIR LocalId -> model binder id: by identifier offset (let / pattern / closure parameter) or as f's parameter
        hid2id = {}
        for b in a["binds"]:
            if b.get("at") is not None and b["at"] in off2id:
                hid2id[b["id"]] = off2id[b["at"]]
            elif b.get("fn") == "f" and b.get("index") == 0:
                hid2id[b["id"]] = 1
        has_shadow = len({t["x"] for t in toks if t["id"]}) < len([t for t in toks if t["id"]]) or any(t["id"] and t["x"] == "p" for t in toks)
        shadowing += 1 if has_shadow else 0
        unbound_cases += 1 if any(e == 0 for _, _, e in uses) else 0
        for (off, name, exp) in uses:
            checked_uses += 1
            u = real.get(off)
            if u is None:
                rep.violation("use-not-found-in-hir", {"program": text, "offset": off}, replay={"toks": toks})
                break
            if exp == 0:
                got = 0 if u["res"] == "unresolved" else hid2id.get(u.get("id"), -1)
            else:
                got = hid2id.get(u.get("id"), -1) if u["res"] == "local" else 0
            if got != exp:
                # identity: what kind of block the wrongly chosen binder leaked out of / which rule failed
                kinds = sorted({t["k"] for t in toks if t["t"] == "open"})
                ident = "resolution:" + ("unbound-resolved" if exp == 0 else "wrong-binder") + tag + ":blocks=" + "+".join(kinds)
                rep.violation(ident, {"program": text, "use": name, "offset": off, "expected_binder": exp, "got_binder": got,
                                      "hir_use": u}, replay={"toks": toks})
                break
    # ---- full compiler verdicts on a sample (each skeleton in its own directory)
    rnd = rng(5)
    idx = list(range(len(progs)))
    rnd.shuffle(idx)
    nfull = 600 if tier == "quick" else 6000
    root = workdir("c05")
    creq = []
    for j in idx[:nfull]:
        d = os.path.join(root, f"p{j}")
        os.makedirs(d, exist_ok=True)
        open(os.path.join(d, "main.gom"), "w").write(meta[j][1])
        creq.append({"id": j, "path": os.path.join(d, "main.gom")})
    cans = gv_parallel("compile", creq, shards=NCPU)
    accepted = rejected = 0
    for a in cans:
        toks, text, uses, binders = meta[a["id"]]
        unbound = sorted({n for _, n, e in uses if e == 0})
        kinds = sorted({t["k"] for t in toks if t["t"] == "open"})
        if a["verdict"] in ("panic", "timeout"):
            rep.violation(f"compile-{a['verdict']}:{a.get('at')}", {"program": text, "msg": a.get("msg")}, replay={"toks": toks})
        elif not unbound:
            if a["verdict"] != "ok":
                msg = "; ".join(d["msg"] for d in a.get("diags", []))[:300]
                kind = "internal-error" if "Internal error" in msg else "rejected"
                rep.violation(f"well-scoped-{kind}:blocks=" + "+".join(kinds), {"program": text, "verdict": a["verdict"], "diags": msg}, replay={"toks": toks})
            else:
                accepted += 1
        else:
            msgs = [d["msg"] for d in a.get("diags", [])]
            if a["verdict"] == "ok":
                rep.violation("unbound-use-accepted", {"program": text, "unbound": unbound}, replay={"toks": toks})
            elif not any(any(n in m for n in unbound) for m in msgs) or any("Internal error" in m for m in msgs):
                rep.violation("unbound-use-diagnostic-does-not-name-identifier", {"program": text, "unbound": unbound, "diags": msgs[:4]}, replay={"toks": toks})
            else:
                rejected += 1
    # ---- a parameter named like an enum variant (lowercase constructors are legal): the parameter is the innermost binder of its uses
    vreq, vmeta = [], {}
    for bk in ("fn-param", "closure-param"):
        for vk, decl in (("nullary", "enum color { red, green }"), ("payload", "enum color { red(int32), green }")):
            for use in ("value", "callee"):
                pty, body, arg = ("int32", "red + 1", "41") if use == "value" else ("(int32) -> int32", "red(41)", "|v: int32| v + 1")
                if bk == "fn-param":
                    text = f"{decl}\nfn pick(red: {pty}) -> int32 {{ {body} }}\nfn main() -> unit {{\n    let _ = string_println(int32_to_string(pick({arg})));\n    ()\n}}\n"
                else:
                    text = f"{decl}\nfn main() -> unit {{\n    let f = |red: {pty}| {body};\n    let _ = string_println(int32_to_string(f({arg})));\n    ()\n}}\n"
                cid = f"variantname_{bk}_{vk}_{use}".replace("-", "_")
                d = os.path.join(root, cid)
                os.makedirs(d, exist_ok=True)
                open(os.path.join(d, "main.gom"), "w").write(text)
                vreq.append({"id": cid, "path": os.path.join(d, "main.gom")})
                vmeta[cid] = (f"binder-named-like-constructor:{bk}:{vk}-variant:{use}", text)
    vacc = 0
    for a in gv_parallel("compile", vreq, shards=4):
        ident, text = vmeta[a["id"]]
        if a["verdict"] == "ok":
            vacc += 1
        else:
            rep.violation(ident, {"program": text, "verdict": a["verdict"], "diags": [d["msg"] for d in a.get("diags", [])][:3],
                                  "expected": "accepted: every use of `red` is in the scope of the parameter `red`"}, replay={"path": vreq[0]["path"], "text": text})
    rep.coverage["binders_named_like_a_variant_accepted"] = vacc
    for toks, text, uses, _ in meta[:2]:
        rep.sample({"tokens": canon(toks), "expected_resolution": [e for _, _, e in uses], "program": text})
    rep.coverage.update({
        "states": r.distinct + r2.distinct, "transitions": r.generated + r2.generated,
        "traces_validated_against_impl": len(progs) * 5,
        "action_coverage": r.coverage, "uses_checked": checked_uses, "uses_checked_next_to_same_named_functions": global_uses, "skeletons_with_shadowing": shadowing,
        "skeletons_with_unbound_use": unbound_cases, "full_compiles": len(cans), "full_accepted": accepted,
        "full_rejected_with_named_identifier": rejected, "model_config": cfg, "exhaustive": True,
    })
    rep.assumptions += ["bounds: names {x,p} (+y thorough), <= 6 (7) tokens, nesting <= 2 (3); if/else branches, while bodies and plain blocks are all "
                        "the same construct (a block) for name resolution and are represented by one kind",
                        "positional correspondence use/binder <-> HIR by byte offset of the identifier"]
    if shadowing == 0 or unbound_cases == 0:
        raise ToolError("vacuity: no shadowing or no unbound skeletons")


def replay_file(path, rep):
    j = json.load(open(path))
    toks = j["replay"]["toks"]
    text, uses, binders = render(toks)
    print(text)
    a = gv("hir", [{"id": 0, "text": text}])[0]
    print(json.dumps(a, indent=1)[:3000])
