"""C16 — packages are isolated by imports and trait implementations are coherent.

spec/Coherence.tla enumerates every configuration of three packages (import edges incl. a missing package, a misnamed
directory, placement of a struct, a trait, up to two impls and a use site) and computes the set of rule violations
(missing / mismatch / cycle / unresolved / orphan / duplicate / noimpl); TLC checks that the orphan rule plus acyclic,
resolved imports already implies project-wide coherence and that an accepted project gives the call exactly one
meaning.  Every sampled configuration is written as a directory tree and compiled by the real pipeline: it must be
accepted iff the model's violation set is empty, a rejection must be for one of the model's reasons, and an accepted
program must print the value of the unique implementation (GoSem)."""
import json, os, re
import re
from common import *
import engine

LEVEL = "model_checking"
K = {"Main": 1, "A": 2, "B": 3}


def q(name, owner, here):
    return name if owner == here else f"{owner}::{name}"


def render(c, root):
    files = {}
    tp = c["tp"]
    builtin = tp in ("int32", "vec")

    def ty(here):
        return {"int32": "int32", "vec": "Vec[int32]"}[tp] if builtin else q("T", tp, here)

    def value(here):
        if tp == "int32":
            return "1"
        if tp == "vec":
            return "mkvec()"
        if c["useform"] == "assoc":
            return ty(here) + "::mk()"
        return ty(here) + " { v: 1 }"

    for p in ("Main", "A", "B"):
        decl = p
        if p == "A" and c["misnamedA"]:
            decl = "Ax"
        L = [f"package {decl}"]
        for d in sorted(c["imports"][p]):
            L.append(f"import {d}")
        if tp == p:
            L.append("struct T { v: int32 }")
            L.append("impl T { fn mk() -> T { T { v: 1 } } }")
        if c["rp"] == p:
            L.append("trait R { fn m(Self) -> int32; }")
        if p in c["impls"]:
            recv = {"int32": "self", "vec": "vec_len(self)"}.get(tp, "self.v")
            L.append(f"impl {q('R', c['rp'], p)} for {ty(p)} {{ fn m(self: {ty(p)}) -> int32 {{ {recv} + {K[p] * 100} }} }}")
        if c["up"] == p:
            if tp == "vec":
                L.append("fn mkvec() -> Vec[int32] { let v: Vec[int32] = vec_new(); vec_push(v, 7) }")
            L.append(f"fn use_it() -> int32 {{ {q('R', c['rp'], p)}::m({value(p)}) }}")
        if p == "Main":
            body = "let _ = string_println(int32_to_string(use_it()));" if c["up"] == "Main" else \
                   (f"let _ = string_println(int32_to_string({c['up']}::use_it()));" if c["up"] in c["imports"]["Main"] else 'let _ = string_println("none");')
            L.append("fn main() {\n    " + body + "\n    ()\n}")
        files[p] = "\n".join(L) + "\n"
    os.makedirs(root, exist_ok=True)
    open(os.path.join(root, "main.gom"), "w").write(files["Main"])
    for p in ("A", "B"):
        os.makedirs(os.path.join(root, p), exist_ok=True)
        open(os.path.join(root, p, "lib.gom"), "w").write(files[p])
    return os.path.join(root, "main.gom")


PATTERNS = [
    ("missing", r"failed to read package directory|imports missing package|No such file"),
    ("mismatch", r"declares package|package mismatch"),
    ("cycle", r"cycle"),
    ("duplicate", r"multiple packages|already implemented|already defined|[Dd]uplicate"),
    ("orphan", r"orphan"),
    ("unresolved", r"not imported|[Uu]nresolved|not found|[Uu]nknown|Cannot find|does not exist|undefined"),
    ("noimpl", r"does not implement|[Nn]o impl|not implemented|No instance found"),
]


def classify_diags(diags):
    out = set()
    for d in diags:
        hit = False
        for cls, pat in PATTERNS:
            if re.search(pat, d["msg"]):
                out.add(cls)
                hit = True
                break
        if not hit:
            out.add("other:" + d["msg"][:60])
    return out


def local_rules(rep, root):
    """CoherenceLocal.tla: files of one package directory declaring another package; two implementation blocks of one (trait, type)
    pair inside one package (own or imported trait, one file or two)."""
    r = run_tlc("CoherenceLocal", "CoherenceLocal.cfg", workers=2, xmx="2g", timeout=600)
    if not tlc_ok(r, "CoherenceLocal"):
        rep.violation(f"model:CoherenceLocal:{r.violated}", {"trace": r.trace[-1:]})
    cfgs = r.json_prints("LOCALCFG")
    if len(cfgs) != r.distinct or len(cfgs) < 40:
        raise ToolError("CoherenceLocal: unexpected number of configurations")
    reqs = []
    for i, c in enumerate(cfgs):
        d = os.path.join(root, f"local{i}")
        pk = c["where"]                                  # the package whose directory is probed
        tr = "Show" if c["trait"] == "same-package" else "TraitPkg::Show"
        decl = lambda which: pk if c[which] == "own" else "Other"
        files = {}
        home = 2 if c["first"] == "other" else 1        # the file (by sort position) that holds the package's real content
        body = {1: [], 2: []}
        body[home].append("struct Item { v: int32 }")
        body[home].append("fn make() -> Item { Item { v: 1 } }")
        if c["trait"] == "same-package":
            body[home].append("trait Show { fn show(Self) -> string; }")
        for k, pos in enumerate(c["blocks"]):
            body[pos].append(f"impl {tr} for Item {{ fn show(self: Item) -> string {{ \"block{k + 1}\" }} }}")
        imp = "import TraitPkg\n" if c["trait"] == "imported-package" else ""
        texts = {1: f"package {decl('first')}\n{imp if decl('first') == pk else ''}\n" + "\n".join(body[1]) + ("\nfn stray() -> int32 { 1 }\n" if c["first"] == "other" else "\n"),
                 2: f"package {decl('last')}\n{imp if decl('last') == pk else ''}\n" + "\n".join(body[2]) + ("\nfn stray() -> int32 { 1 }\n" if c["last"] == "other" else "\nfn tail_fn() -> int32 { 2 }\n")}
        call = (f"{('' if pk == 'Main' else 'Lib::')}{'Show' if c['trait'] == 'same-package' else ''}" if False else "")
        shown = ""
        if c["blocks"]:
            trq = ("TraitPkg::Show" if c["trait"] == "imported-package" else ("Show" if pk == "Main" else "Lib::Show"))
            mk = "make()" if pk == "Main" else "Lib::make()"
            shown = f"    let _ = string_println({trq}::show({mk}));\n"
        if pk == "Lib":
            files["Lib/a_first.gom"] = texts[1]
            files["Lib/z_last.gom"] = texts[2]
            files["main.gom"] = "package Main\nimport Lib\n" + imp + "\nfn main() {\n    let _ = Lib::make();\n" + shown + "    ()\n}\n"
        else:
            files["a_first.gom"] = texts[1]
            files["z_last.gom"] = texts[2]
            files["main.gom"] = "package Main\n" + imp + "\nfn main() {\n    let _ = make();\n" + shown + "    ()\n}\n"
        if c["trait"] == "imported-package":
            files["TraitPkg/lib.gom"] = "package TraitPkg\n\ntrait Show { fn show(Self) -> string; }\n"
        for rel, t in files.items():
            os.makedirs(os.path.dirname(os.path.join(d, rel)), exist_ok=True)
            open(os.path.join(d, rel), "w").write(t)
        reqs.append({"id": i, "path": os.path.join(d, "main.gom")})
    answers = gv_parallel("compile", reqs)
    n = 0
    for c, a, q in zip(cfgs, answers, reqs):
        exp = set(c["viol"])
        shape = f"{c['where']}:first={c['first']}:last={c['last']}:trait={c['trait']}:blocks={''.join(str(x) for x in c['blocks']) or 'none'}"
        src = {rel: open(os.path.join(os.path.dirname(q["path"]), rel)).read() for rel in ("main.gom",)}
        if a["verdict"] in ("panic", "timeout"):
            rep.violation(f"crash:local:{a.get('at')}", {"config": c, "msg": a.get("msg")}, replay={"config": c})
            continue
        n += 1
        if not exp:
            if a["verdict"] != "ok":
                rep.violation(f"rejected-legal-package:{shape}", {"config": c, "diags": [d_["msg"] for d_ in a.get("diags", [])][:4], "main": src}, replay={"config": c})
        elif a["verdict"] == "ok":
            rep.violation(f"accepted-illegal-package:{'+'.join(sorted(exp))}:{shape}", {"config": c, "main": src}, replay={"config": c})
        else:
            got = classify_diags(a.get("diags", []))
            known = {g for g in got if not g.startswith("other:")}
            if not known:
                rep.coverage["rejections_whose_wording_is_not_recognised"] = rep.coverage.get("rejections_whose_wording_is_not_recognised", 0) + 1
            elif not (known & exp):
                rep.violation(f"rejected-for-unlisted-reason:{'+'.join(sorted(exp))}:{shape}", {"config": c, "got": sorted(got)}, replay={"config": c})
    return n


def run(tier, rep):
    build_harness()
    rnd = rng(16)
    r = run_tlc("Coherence", "Coherence.cfg", workers=8, xmx="8g", timeout=2400)
    if not tlc_ok(r, "Coherence"):
        rep.violation(f"model:Coherence:{r.violated}", {"trace": r.trace[-1:]})
    configs = r.json_prints("CONFIG")
    if len(configs) < 100000:
        raise ToolError("Coherence emitted too few configurations")
    by = {}
    for c in configs:
        by.setdefault((tuple(sorted(c["viol"])), c["tp"] in ("int32", "vec"), c["useform"]), []).append(c)
    chosen = []
    per = 60 if tier == "quick" else 100000
    for cls, cs in sorted(by.items()):
        rnd.shuffle(cs)
        disc = any(x in ("missing", "mismatch", "cycle") for x in cls[0])
        chosen += cs[:(per // 10 if disc and tier == "quick" else per // 3 if tier == "quick" else per)]
        if tier == "thorough" and disc:
            chosen = chosen  # discovery classes are large and uniform; all are kept in thorough as well
    root = workdir("c16")
    cases = []
    for i, c in enumerate(chosen):
        path = render(c, os.path.join(root, f"p{i}"))
        cases.append({"id": f"cfg{i}", "path": path, "config": c, "family": "c16"})
    accept_cases = [c for c in cases if not c["config"]["viol"]]
    engine.evaluate(accept_cases, static=True, sem=True, name="c16")
    other = [c for c in cases if c["config"]["viol"]]
    answers = gv_parallel("compile", [{"id": c["id"], "path": c["path"]} for c in other])
    for c, a in zip(other, answers):
        c["compile"] = a
    agree = 0
    classes = {}
    for c in cases:
        cfg = c["config"]
        exp = set(cfg["viol"])
        a = c["compile"]
        key = "+".join(sorted(exp)) or "ok"
        classes[key] = classes.get(key, 0) + 1
        kind = ("builtin-type" if cfg["tp"] in ("int32", "vec") else "struct") + ":" + cfg["useform"]
        if a["verdict"] in ("panic", "timeout"):
            rep.violation(f"crash:{a.get('at')}", {"config": cfg, "msg": a.get("msg")}, replay={"config": cfg})
            continue
        if not exp:
            if a["verdict"] != "ok":
                got = classify_diags(a.get("diags", []))
                rep.violation(f"rejected-legal-project:{'+'.join(sorted(got))}", {"config": cfg, "diags": [d["msg"] for d in a.get("diags", [])][:4]}, replay={"config": cfg})
                continue
            # behaviour: the unique implementation's value
            sv = engine.static_verdict(c)
            if sv == "reject":
                rep.violation("accepted-project-invalid-go:" + engine.static_reason(c)[:40], {"config": cfg}, replay={"config": cfg})
                continue
            g = c.get("sem")
            if cfg["up"] in cfg["reach"] and g and g["status"] == "ok":
                loaded = [p for p in cfg["impls"] if p in cfg["reach"]]
                want = ("none\n" if not (cfg["up"] == "Main" or cfg["up"] in cfg["imports"]["Main"]) else f"{1 + K[loaded[0]] * 100}\n").encode()   # T.v = 1, int32 value 1, vec of length 1
                if g["out"] != want:
                    rep.violation("accepted-project-wrong-implementation", {"config": cfg, "expected": want.decode(), "got": g["out"].decode("utf-8", "replace")}, replay={"config": cfg})
                    continue
            agree += 1
        else:
            if a["verdict"] == "ok":
                rep.violation(f"accepted-illegal-project:{key}:{kind}", {"config": cfg, "source_main": open(c["path"]).read()}, replay={"config": cfg})
                continue
            got = classify_diags(a.get("diags", []))
            known = {g for g in got if not g.startswith("other:")}
            if not known:
                # rejected with a diagnostic whose wording the keyword classifier does not know: the property asks for an error,
                # not for a wording; counted, not judged
                rep.coverage["rejections_whose_wording_is_not_recognised"] = rep.coverage.get("rejections_whose_wording_is_not_recognised", 0) + 1
                agree += 1
                continue
            if not (known & exp):
                # rejected, but for a recognised reason the model does not list
                rep.violation(f"rejected-for-unlisted-reason:{key}:got={'+'.join(sorted(got))[:80]}", {"config": cfg, "diags": [d["msg"] for d in a.get("diags", [])][:4]}, replay={"config": cfg})
                continue
            agree += 1
    # ---- the verdict does not depend on how the packages are called: the same projects with package names of which one is a
    # prefix of another (Geo / GeoData, and the other way round)
    renamed = 0
    sample = [c for c in cases if c["compile"]["verdict"] not in ("panic", "timeout")]
    rnd.shuffle(sample)
    sample = sample[: (240 if tier == "quick" else 4000)]
    rreqs = []
    for c in sample:
        src = os.path.dirname(c["path"])
        for tag, mp in (("ab", {"A": "Geo", "B": "GeoData"}), ("ba", {"A": "GeoData", "B": "Geo"})):
            dst = src + "_" + tag
            for dp, dn, fn in os.walk(src):
                rel = os.path.relpath(dp, src)
                parts = [] if rel == "." else [mp.get(x, x) for x in rel.split(os.sep)]
                os.makedirs(os.path.join(dst, *parts), exist_ok=True)
                for f in fn:
                    t = open(os.path.join(dp, f)).read()
                    t = re.sub(r"\b(A|B)\b", lambda m: mp[m.group(1)], t)
                    open(os.path.join(dst, *parts, f), "w").write(t)
            rreqs.append({"id": f"{c['id']}:{tag}", "path": os.path.join(dst, "main.gom")})
    rans = {a["id"]: a for a in gv_parallel("compile", rreqs)}
    for c in sample:
        for tag in ("ab", "ba"):
            a = rans[f"{c['id']}:{tag}"]
            renamed += 1
            if a["verdict"] in ("panic", "timeout"):
                rep.violation(f"crash:renamed-packages:{a.get('at')}", {"config": c["config"], "msg": a.get("msg")}, replay={"config": c["config"]})
            elif (a["verdict"] == "ok") != (c["compile"]["verdict"] == "ok"):
                key = "+".join(sorted(c["config"]["viol"])) or "ok"
                rep.violation(f"verdict-depends-on-package-names:{key}:{'prefix-first' if tag == 'ab' else 'prefix-last'}",
                              {"config": c["config"], "names": "A=Geo, B=GeoData" if tag == "ab" else "A=GeoData, B=Geo", "with_plain_names": c["compile"]["verdict"],
                               "with_these_names": a["verdict"], "diags": [d["msg"] for d in a.get("diags", [])][:3]}, replay={"config": c["config"]})
    rep.coverage["projects_recompiled_under_prefix_related_package_names"] = renamed
    # ---- a missing package is reported by `link` too: every set of cores that contains Main but lacks one of the packages it
    # (transitively) imports must be refused; the complete set links
    import c15, itertools
    build_cli()
    link_sets = 0
    for graph in ("chain", "tri", "fan", "diamond"):
        proj = c15.Project(graph, os.path.join(root, "link_" + graph))
        order = [p_ for p_ in ("A", "B", "C", "Main") if p_ in proj.deps]
        for p_ in order:
            v, err, _ = proj.compile_pkg("build", p_)
            if v != "ok":
                raise ToolError(f"link sets: build of {p_} in {graph} failed: {err}")
        need = set()
        todo = ["Main"]
        while todo:
            x = todo.pop()
            if x not in need:
                need.add(x)
                todo += proj.deps[x]
        others = [p_ for p_ in order if p_ != "Main"]
        for k in range(len(others) + 1):
            for sub in itertools.combinations(others, k):
                S = set(sub) | {"Main"}
                v, err, pan = proj.link(S)
                link_sets += 1
                if pan:
                    rep.violation(f"crash:link:{graph}", {"cores": sorted(S), "stderr": err})
                elif need <= S and v != "ok":
                    rep.violation(f"link-refuses-complete-set:{graph}", {"cores": sorted(S), "stderr": err})
                elif not (need <= S) and v == "ok":
                    rep.violation(f"link-accepts-missing-package:{graph}:missing={'+'.join(sorted(need - S))}", {"cores": sorted(S), "needed": sorted(need)})
    rep.coverage["link_core_sets_judged"] = link_sets
    local_checked = local_rules(rep, root)
    name_use(rep, root)
    rep.coverage["package_local_configurations"] = local_checked
    for c in cases[:2]:
        rep.sample({"config": c["config"], "main.gom": open(c["path"]).read()})
    rep.coverage.update({"states": r.distinct, "transitions": r.generated, "traces_validated_against_impl": len(cases), "configurations_in_model": len(configs),
                         "configurations_compiled": len(cases), "agree": agree, "by_violation_class": classes, "exhaustive": tier == "thorough"})
    rep.assumptions += ["verdict classes are recognised from diagnostic texts by keyword (missing / mismatch / cycle / unresolved / orphan / duplicate / noimpl)",
                        "three packages, one struct, one trait, <= 2 impls, one use site"]
    if agree < 100:
        raise ToolError("vacuity: fewer than 100 configurations agreed")


# ---------------------------------------------------------------- NameUse.tla: every position where an item of another package can be named
NU_B = """package B

struct T { v: int32 }
enum E { V(int32), W }
trait Tr { fn m(Self) -> int32; }
impl Tr for T { fn m(self: T) -> int32 { self.v } }
impl Tr for int32 { fn m(self: int32) -> int32 { self } }
impl T { fn mk() -> T { T { v: 3 } } }
fn f(x: int32) -> int32 { x + 1 }
fn get(t: T) -> int32 { t.v }
"""
NU_A = """package A
import B

fn make() -> B::T { B::T { v: 7 } }
fn mke() -> B::E { B::E::V(5) }
fn val(t: B::T) -> int32 { B::get(t) }
fn mkvec() -> Vec[B::T] { let v: Vec[B::T] = vec_new(); vec_push(v, make()) }
fn mkref() -> Ref[B::T] { ref(make()) }
fn mkarr() -> [B::T; 1] { [make()] }
fn mktup() -> (int32, B::T) { (1, make()) }
fn mkfn() -> (B::T) -> int32 { val }
"""
NU_WRAP = {"bare": ("B::T", "A::make()"), "tuple": ("(int32, B::T)", "A::mktup()"), "vec": ("Vec[B::T]", "A::mkvec()"),
           "fn-type": ("(B::T) -> int32", "A::mkfn()"), "array": ("[B::T; 1]", "A::mkarr()"), "ref": ("Ref[B::T]", "A::mkref()")}


def nameuse_main(c):
    w, v = NU_WRAP[c["wrap"]]
    decl, body = [], []
    p = c["pos"]
    if p == "let-annotation":
        body.append(f"let x: {w} = {v};")
    elif p == "fn-parameter":
        decl.append(f"fn h(x: {w}) -> int32 {{ 0 }}")
        body.append(f"let n = h({v});")
    elif p == "fn-result":
        decl.append(f"fn h() -> {w} {{ {v} }}")
        body.append("let x = h();")
    elif p == "closure-parameter":
        body.append(f"let g = |x: {w}| 0;")
        body.append(f"let n = g({v});")
    elif p == "struct-field":
        decl.append(f"struct S {{ x: {w} }}")
        body.append(f"let s = S {{ x: {v} }};")
    elif p == "enum-payload":
        decl.append(f"enum En {{ K({w}), Z }}")
        body.append(f"let e = En::K({v});")
    elif p == "impl-target":
        decl.append("trait Loc { fn n(Self) -> int32; }")
        decl.append(f"impl Loc for {w} {{ fn n(self: {w}) -> int32 {{ 0 }} }}")
        body.append(f"let n = Loc::n({v});")
    elif p == "trait-method-signature":
        decl.append(f"trait Loc {{ fn n(Self, {w}) -> int32; }}")
        decl.append(f"impl Loc for int32 {{ fn n(self: int32, x: {w}) -> int32 {{ self }} }}")
        body.append(f"let n = Loc::n(1, {v});")
    elif p == "extern-signature":
        decl.append(f'extern "go" "somepkg" gofn(x: {w}) -> int32')
        body.append(f"let n = gofn({v});")
    elif p == "struct-literal":
        body.append("let t = B::T { v: 1 };")
    elif p == "constructor-expression":
        body.append("let e = B::E::V(1);")
    elif p == "constructor-pattern":
        body.append("let n = match A::mke() { B::E::V(k) => k, _ => 0 };")
    elif p == "struct-pattern":
        body.append("let B::T { v } = A::make();")
    elif p == "function-call":
        body.append("let n = B::f(1);")
    elif p == "function-value":
        body.append("let g = B::f;")
        body.append("let n = g(1);")
    elif p == "trait-method-call":
        body.append("let n = B::Tr::m(A::make());")
    elif p == "trait-bound":
        decl.append("fn gen[X: B::Tr](x: X) -> int32 { 0 }")
        body.append("let n = gen(A::make());")
    elif p == "dyn-type":
        body.append("let d: dyn B::Tr = A::make();")
    elif p == "impl-trait":
        decl.append("struct Loc2 { a: int32 }")
        decl.append("impl B::Tr for Loc2 { fn m(self: Loc2) -> int32 { self.a } }")
        body.append("let l = Loc2 { a: 1 };")
    elif p == "assoc-function":
        body.append("let t = B::T::mk();")
    elif p == "none":
        body.append("let x = A::make();")
        body.append("let n = A::val(x);")
    else:
        raise ValueError(p)
    imp = "import A\n" + ("import B\n" if c["imported"] else "")
    return "package Main\n" + imp + "\n" + "\n".join(decl) + ("\n" if decl else "") + "fn main() -> unit {\n    " + "\n    ".join(body) + "\n    ()\n}\n"


def name_use(rep, root):
    r = run_tlc("NameUse", "NameUse.cfg", workers=2, xmx="2g", timeout=600)
    if not tlc_ok(r, "NameUse"):
        rep.violation(f"model:NameUse:{r.violated}", {"trace": r.trace[-1:]})
    cfgs = r.json_prints("NAMEUSE")
    if len(cfgs) != r.distinct or len(cfgs) < 100:
        raise ToolError("NameUse: unexpected number of configurations")
    reqs = []
    for i, c in enumerate(cfgs):
        d = os.path.join(root, f"nameuse{i}")
        for rel, t in (("main.gom", nameuse_main(c)), ("A/lib.gom", NU_A), ("B/lib.gom", NU_B)):
            os.makedirs(os.path.dirname(os.path.join(d, rel)), exist_ok=True)
            open(os.path.join(d, rel), "w").write(t)
        reqs.append({"id": i, "path": os.path.join(d, "main.gom")})
    answers = gv_parallel("compile", reqs)
    verdict = {(c["pos"], c["wrap"], c["imported"]): (a, q) for c, a, q in zip(cfgs, answers, reqs)}
    usable = unsupported = 0
    for c in cfgs:
        a, q = verdict[(c["pos"], c["wrap"], c["imported"])]
        key = f"{c['pos']}:{c['wrap']}"
        src = open(q["path"]).read()
        if a["verdict"] in ("panic", "timeout"):
            rep.violation(f"crash:name-use:{a.get('at')}", {"config": c, "msg": a.get("msg"), "main": src}, replay={"config": c})
            continue
        if c["imported"]:
            # the construct itself must be one the language has: with the import it has to be accepted, otherwise this position
            # (in this wrapping) is outside the language and says nothing about naming
            if a["verdict"] != "ok":
                unsupported += 1
            continue
        with_import, _ = verdict[(c["pos"], c["wrap"], True)]
        if with_import["verdict"] != "ok":
            continue
        usable += 1
        if c["legal"] and a["verdict"] != "ok":
            rep.violation(f"rejected-legal-naming:{key}", {"config": c, "diags": [d_["msg"] for d_ in a.get("diags", [])][:4], "main": src}, replay={"config": c})
        elif not c["legal"] and a["verdict"] == "ok":
            rep.violation(f"accepted-name-of-a-package-that-is-not-imported:{key}", {"config": c, "main": src}, replay={"config": c})
    rep.coverage["name_use_positions_judged"] = usable
    rep.coverage["name_use_constructs_outside_the_language"] = unsupported
    if usable < 40:
        raise ToolError(f"vacuity: only {usable} naming positions could be judged")
    return usable
