"""Index of the repository's recorded corpus (programs whose .go / .out were recorded from real Go)."""
import glob, os
from common import CORPUS, PKG_CORPUS

def single_file_cases():
    out = []
    for d in sorted(glob.glob(os.path.join(CORPUS, "*"))):
        src = os.path.join(d, "main.gom")
        if os.path.exists(src):
            go = os.path.join(d, "main.gom.go")
            exp = os.path.join(d, "main.gom.out")
            out.append({"name": os.path.basename(d), "dir": d, "src": src,
                        "go": go if os.path.exists(go) else None, "out": exp if os.path.exists(exp) else None})
    return out

def package_cases():
    out = []
    for d in sorted(glob.glob(os.path.join(PKG_CORPUS, "*"))):
        src = os.path.join(d, "main.gom")
        if os.path.exists(src):
            exp = os.path.join(d, "main.gom.out")
            out.append({"name": os.path.basename(d), "dir": d, "src": src, "go": None,
                        "out": exp if os.path.exists(exp) else None})
    return out
