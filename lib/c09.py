"""C09 — evaluation order and effects: left to right, exactly once, short-circuit.

Every n-ary construct of the language is instantiated with observable effects (printing ticks, Ref updates, failing
operations) in every operand/argument/branch/condition position (lib/fam_c09.py).  The expected output is computed by
GomlSem.tla under TLC (operand frames evaluate left to right, andR/orR frames short-circuit, if/match evaluate one
branch); the real compiler's Go for the same program is executed by GoSem.tla; outputs and the way the program ends must
be equal.  `go` activations are explored with all interleavings by the threaded machines (section go)."""
from common import *
import famcheck, fam_c09, fam_random

LEVEL = "model_checking"


def run(tier, rep):
    build_harness()
    progs = fam_c09.programs(tier)
    # calls made only for their effect in tail position of loop bodies / arms / blocks, for every call form; aggregate literals
    # taken apart on the spot with effects at depth 0, 1, 2 in selected and non-selected components
    progs += fam_c09.effect_tail_programs(tier) + fam_c09.literal_elim_programs(tier)
    n_rand = 60 if tier == "quick" else 1500
    progs += [p for p in fam_random.programs(n_rand, seed() + 909, depth=3 if tier == "quick" else 4)]
    cases, counts = famcheck.run_families("C09", rep, progs, "c09")
    # ---- static relations on every path of every function: Lift -> ANF keeps the order of effects (IREffects.tla), dead-code
    # elimination of the Go keeps every effect (Dce.tla; the pre-DCE program comes from the hook in go_file)
    import passes, corpus
    pc = [{"id": c["id"], "path": c["path"], "ident": c["ident"]} for c in cases]
    pc += [{"id": "corpus:" + c["name"], "path": c["src"], "ident": "corpus:" + c["name"]} for c in corpus.single_file_cases() + corpus.package_cases()]
    pst = passes.validate(pc, rep, "c09")
    rep.coverage["pass_relations"] = pst
    if pst["dce"]["programs"] < 100 or pst["anf_order"]["programs"] < 100 or pst["dce"]["effect_atoms"] < 1000:
        raise ToolError(f"vacuity: pass relations evaluated on too little: {pst}")
    # ---- the design of the pass: DceModel.tla is dce_block_with_live written like the code; TLC enumerates every valid abstract
    # program of the bounded shape and checks the output (same effects with the same values on every branch choice, valid Go,
    # idempotent).  Three configurations must FAIL: the algorithm's two assumptions about its input (no loop-carried local, no
    # assignment reading its own target) and the purity rule as it was before fix 9297588
    dm = run_tlc("DceModel", "DceModel_small.cfg", workers=6, xmx="8g", xss="512m", timeout=1200)
    if not tlc_ok(dm, "DceModel_small.cfg"):
        rep.violation(f"model:DceModel_small:{dm.violated}", {"trace": dm.trace[-2:]})
    if dm.distinct < 2000:
        raise ToolError(f"vacuity: DceModel enumerated only {dm.distinct} programs")
    for cfg in ("DceModel_carried.cfg", "DceModel_selfassign.cfg", "DceModel_failing.cfg"):
        r_ = run_tlc("DceModel", cfg, workers=4, xmx="8g", xss="512m", timeout=1200)
        if r_.violated != "SameEffects":
            raise ToolError(f"model self-test: {cfg} should violate SameEffects, got {r_.violated or r_.error}")
    rep.coverage["dce_model_programs"] = dm.distinct
    rep.coverage["states"] = rep.coverage.get("states", 0) + dm.distinct
    import c09go
    c09go.run(tier, rep)
    rep.coverage["traces_validated_against_impl"] = rep.coverage.get("disagreements_checked", 0) + rep.coverage.get("go_schedules_checked", 0)
    rep.coverage["enumerated_positions"] = len([c for c in cases if c["family"].startswith("c09")])
    for fam in ("c09-effect-tail", "c09-literal-elim"):
        if sum(1 for c in cases if c["family"] == fam and c["cls"] == "agree") < 20:
            raise ToolError(f"vacuity: fewer than 20 programs of family {fam} could be compared")
    rep.assumptions += famcheck.STD_ASSUMPTIONS
    if counts.get("agree", 0) < 30:
        raise ToolError("vacuity: fewer than 30 programs could be compared")
